#!/usr/bin/env python3
"""regenerates /verif/MANIFEST.json from the tables below"""
import json, os, subprocess
V = os.path.dirname(os.path.dirname(os.path.abspath(__file__)))

CLAIMS = {
 'C01': ("exploration", "3.1", "Seeded search over client programs x schedules x faults on the real queue code: exactly-once counters, bounded liveness (60 simulated s after faults stop), gate mode for 'asynchronous forms do not wait'. Sampling, not proof: right level because the property quantifies over all interleavings of a lock-free state machine that no finite enumeration at source level covers."),
 'C02': ("exploration", "3.2", "Seeded schedules of mixed async/sync/barrier submissions on one serial queue (and the main queue); judged from call/return/start/end stamps: intervals disjoint, submission order kept."),
 'C03': ("exploration", "3.3", "Random target-queue hierarchies (serial or workloop bottoms, inactive+retargeted queues) under seeded schedules; at most one running item per hierarchy, per-queue FIFO."),
 'C05': ("exploration", "3.5", "Logic half of the property: every synchronous submission form returns only after its item's end stamp, and plain payload/result records written before each hand-off (submission, sync return, group wait/notify, semaphore wait, once) are complete when read, over seeded schedules. The hardware-visibility half is out of reach of any serialising simulator and is stated as such."),
 'C06': ("exploration", "3.6", "Seeded histories of suspend/resume/activate (nesting to 200, from items and from other threads) racing with submissions: no start while inactive or while definitely suspended from an own item, at most one committed start after an off-queue suspend of a serial queue, everything runs within 60 simulated s after the last resume."),
 'C07': ("exploration", "3.7", "Seeded histories of enter/leave/group_async/notify/wait over 1-2 groups; wait==0 and notify delivery are judged against the lower bound L(t)=enters returned - leaves called, time-outs against the simulated clock, exactly-once and nothing-left-behind at quiescence, group reuse."),
 'C08': ("exploration", "3.8", "Seeded histories of wait (forever/timed/poll) and signal on one semaphore with time-outs placed to race signals: successes <= v + signals started at every return, time-out not before the deadline, lost-signal and exact permit conservation at the end."),
 'C09': ("exploration", "3.9", "2-8 racing callers per predicate under seeded schedules: initialiser count == 1, no return before its end, nobody left blocked, later calls do not run it."),
 'C10': ("exploration", "3.10", "dispatch_apply with n in {0,1,2,..,CPU+-1,17,64,1000} on AUTO/global/serial/concurrent/chained queues, nested to depth 3, issued from client threads and from items, CPU count 1-8, under seeded schedules: per-index counters all 1, no index >= n, return after every invocation ended, index order on serial-bottomed queues, barrier rules on concurrent queues."),
 'C11': ("exploration", "3.11", "1-40 pending timers on the three clocks plus dispatch_after, re-configured, suspended and cancelled from handlers and other threads, under seeded schedules, time warps and wall-clock steps: never early against the clock's high-water mark, cumulative data <= interval boundaries passed, exactly once for dispatch_after, every armed timer fires within 60 simulated s of its start being reached."),
 'C15': ("exploration", "3.15", "DATA_ADD/OR/REPLACE sources on serial/concurrent/global targets with 2-5 merging threads, merges from the handler and suspended bursts: sums/unions equal at quiescence, delivered REPLACE values were merged and a non-overlapped final merge is last, never 0, handler never re-entered."),
 'C19': ("exploration", "3.19", "One block object per run with random flags, submitted through async/sync/group_async/barrier_async/direct invocation, with a waiter, notifiers, cancellers (before submit, while queued behind a held item, at a random instant, from its own body) and testcancel pollers on separate threads under seeded schedules."),
 'C12': ("exploration", "3.12", "Narrow claim: dispatch_time / dispatch_walltime are compared with a 128-bit reference model at simulated clock positions (ordinary, near zero, near the 2^62 limit) for boundary-biased bases and deltas, and elapsed results are fed to the real semaphore/group wait paths, which must return without simulated time passing. For explicit bases this is seeded input sampling that merely runs inside the simulator; the clock-dependent cases (NOW, WALLTIME_NOW, MONOTONICTIME_NOW, NULL timespec) and the no-block clause are what the clock seam contributes."),
 'C16': ("exploration", "3.16", "Timer, data, read and write sources (pipes and socketpairs, with peer hang-up and a sibling source on the other direction of the same descriptor) cancelled before activation, from the handler, from an item on the serial target queue, from other threads, twice, and with cancel_and_wait, under seeded schedules and ASan: no handler after an on-queue cancel, at most one after an off-queue cancel, cancel handler exactly once on the target queue after the last handler and after the epoll registration is gone, no epoll_ctl on the closed descriptor."),
 'C14': ("fault_enumeration", "3.14", "Two parts. Enumeration: for every generated program whose fault-free run is clean, each single fault kind (short count, EINTR, EAGAIN, EIO) is forced at every intercepted read/write call index of that run. Exploration: stream channels over real pipes and socketpairs with a simulated peer (chunked arrival, pauses, EOF or no EOF), 1-6 operations among read/write/barrier/water marks/interval/close/STOP, under seeded schedules and injected short counts, EINTR and EAGAIN at the read/write seam, plain and ASan builds: delivered bytes are exactly the stream positions consumed, per-invocation size <= high water, write accounting (reached descriptor + reported unwritten == submitted), done exactly once and last, submission-order completion, barrier judged at the I/O seam, ECANCELED after close, cleanup handler once and last."),
 'C13': ("exploration", "3.13", "Lifetime half of the property: 2-4 threads concurrently create, concatenate, slice, map (including concurrent create_map of shared fragmented objects), copy_region, apply, retain and release data objects whose buffers have default, free() and custom-block destructors on serial/concurrent/global queues, under seeded schedules, plain and ASan. Every observation through the public API is compared with a byte-string model (so a buffer destroyed early shows up as wrong bytes or an ASan report); each custom destructor runs exactly once, on its queue, within 60 simulated s of the last release. The byte-string algebra itself has no schedule in it and only serves as the oracle."),
 'C17': ("exploration", "3.17", "Queues (context, finalizer, specific keys with destructors, target released by its creator), groups released while non-empty and timer/data sources released with events in flight; every object is used through 2-4 references held by different client threads that drop them at adversarial moments (right after an async, between another holder's suspend and resume, from inside the object's own last item). Strategy mix biased to injected stalls and PCT; plain and ASan builds. Oracle: no ASan report, finalizer exactly once on the target queue with the current context after the last item and the last release, key destructors exactly once, memory returned (__sanitizer_get_ownership)."),
 'C18': ("exploration", "3.18", "Context half: random hierarchies with queue-specific keys at random levels; items submitted by async, sync, barrier, async_and_wait, apply and nested submissions check dispatch_get_specific / dispatch_queue_get_specific against the nearest-in-chain model, dispatch_assert_queue on every queue of the chain (and of the submitting item for dispatch_sync) and dispatch_assert_queue_not on queues outside it, under seeded schedules (the same submission takes the fast path, the waiter hand-off or the redirect depending on the interleaving); 5% of runs end with an assertion that must crash. Attribute / global-queue half: a slice of the attribute table per run built in two constructor orders (pointer identity, label, clamped QoS class, relative priority, initial activity) and every documented and some undefined identifiers/flags of dispatch_get_global_queue; this half is plain enumeration, not simulation, and is labelled so in the evidence."),
 'C04': ("exploration", "3.4", "One concurrent queue (optionally narrowed / chained) with readers, barriers and apply under seeded schedules; barrier exclusion and before/after ordering from stamps."),
}
TECH = "deterministic simulation: real libdispatch threads serialised by a seeded baton scheduler (walk/PCT/stall strategies) with simulated clocks/futex/semaphores and injected faults; history oracles; ddmin-minimised replay tapes"
NOT_YET = {}
NA = {
 'C20': "pure function bytes->bytes (dispatch_data_create_with_transform): no thread, clock, descriptor, lock or fault in it, so there is no schedule or fault sequence for a simulator to control; a seeded input generator would be property-based fuzzing, a different technique (DESIGN.md 3.20)",
}


def main():
    props = [json.loads(l)['id'] for l in open(os.path.join(V, 'properties.jsonl'))]
    commits = subprocess.run(['git', '-C', '/repo', 'log', '--format=%H %s'], capture_output=True, text=True).stdout.strip().split('\n')
    hooks = [c.split()[0] for c in commits if ' verif hook' in c]
    checks = []
    na = []
    for p in props:
        if p in CLAIMS:
            lvl, ref, text = CLAIMS[p]
            checks.append({
                'property_id': p,
                'quick_cmd': './check %s quick' % p,
                'thorough_cmd': './check %s thorough' % p,
                'evidence_file': 'evidence/%s.json' % p,
                'replay_cmd_template': './check --replay {path}',
                'engine': 'dsim',
                'level_claimed': {'category': lvl, 'text': text, 'design_ref': 'DESIGN.md section ' + ref},
                'level_note': "Trusted base: the simulator (sim/sim.c: scheduler, simulated futex/semaphores/clocks/timerfd, fault layer), the harness oracles, clang-14, the Linux kernel's epoll/eventfd/pipe behaviour. Sequentially consistent memory inside a run; only the Linux/epoll build of libdispatch; bounded programs (<=6 client threads, <=40 operations).",
                'technique': TECH,
            })
        elif p in NA:
            na.append({'property_id': p, 'reason': NA[p]})
        else:
            na.append({'property_id': p, 'reason': NOT_YET.get(p, 'check not built yet in this revision of /verif (planned, see DESIGN.md section 3)')})
    m = {
        'version': 1,
        'setup_cmd': 'make -s -C /verif MODE=plain -j8 && make -s -C /verif MODE=asan -j8 && make -s -C /verif MODE=full -j8',
        'hooks': {
            'guard': 'DISPATCH_VERIF',
            'enable': 'out-of-tree cmake builds of /repo under /verif/build/{plain,asan,full} with -DCMAKE_C_FLAGS=-DDISPATCH_VERIF=1 (asan: +-fsanitize=address; full: +-DDISPATCH_VERIF_TSAN=1 -fsanitize=thread with our own __tsan_* runtime), see /verif/Makefile',
            'baseline_off_cmd': 'cmake --build /repo/_build && ctest --test-dir /repo/_build -j8 --timeout 900',
            'source_commits': hooks,
            'add_only': True,
        },
        'engines': [{'name': 'dsim', 'path': 'sim/ harness/ driver/ check', 'serves_properties': sorted(CLAIMS), 'kind_free_text': 'deterministic simulation with fault injection (own scheduler, seams via -Wl,--wrap on a static libdispatch)'}],
        'checks': checks,
        'not_applicable': na,
        'notes': 'Exit codes of ./check: 0 held, 1 violation (VIOLATION line with replay file), 2 machinery failure. VERIF_SEED sets the base seed, VERIF_BUDGET_S overrides the simulation time budget, VERIF_WORKERS the worker count.',
    }
    json.dump(m, open(os.path.join(V, 'MANIFEST.json'), 'w'), indent=1)


if __name__ == '__main__':
    main()

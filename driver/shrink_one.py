#!/usr/bin/env python3
"""usage: shrink_one.py <mode> <prop> <cfg> <seed> [budget_s]  -- gate + minimise one seed into replays/"""
import sys, os
sys.path.insert(0, os.path.dirname(os.path.abspath(__file__)))
import shrink, shutil
V = os.path.dirname(os.path.dirname(os.path.abspath(__file__)))
mode, prop, cfg, seed = sys.argv[1], sys.argv[2], sys.argv[3], int(sys.argv[4])
budget = float(sys.argv[5]) if len(sys.argv) > 5 else 120
binary = os.path.join(os.environ.get('VERIF_BUILD', os.path.join(V, 'build')), mode, 'dsim')
env = dict(os.environ)
if mode == 'asan':
    env['ASAN_SYMBOLIZER_PATH'] = shutil.which('llvm-symbolizer-14') or ''
first = shrink._run(binary, env, ['one', prop, cfg, str(seed)])
run = {'seed': seed, 'verdict': first['verdict'], 'clause': first['clause']}
os.makedirs(os.path.join(V, 'replays'), exist_ok=True)
path = os.path.join(V, 'replays', '%s-%d.replay' % (prop, seed))
print(shrink.minimise(binary, env, prop, cfg, mode, run, path, budget_s=budget), path)

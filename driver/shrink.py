"""gate + minimise one failing run; writes the replay file (DESIGN.md 2.9)"""
import subprocess, os, re, time, tempfile


def _run(binary, env, args, timeout=300, extra_env=None):
    e = dict(env)
    if extra_env:
        e.update(extra_env)
    try:
        r = subprocess.run([binary] + args, env=e, capture_output=True, text=True, timeout=timeout)
    except subprocess.TimeoutExpired:
        return {'verdict': 'watchdog', 'clause': 'watchdog', 'msg': '', 'program': '', 'hist': ''}
    res = {'verdict': '?', 'clause': '-', 'msg': '', 'program': '', 'hist': '', 'knobs': {}}
    for line in r.stdout.split('\n'):
        if line.startswith('RESULT '):
            p = line.split()
            res['verdict'] = p[1]
            for kv in p[2:]:
                if '=' in kv:
                    k, v = kv.split('=', 1)
                    res[k] = v
        elif line.startswith('MESSAGE '):
            res['msg'] = line[8:]
        elif line.startswith('knob '):
            k, v = line[5:].split('=')
            res['knobs'][k] = int(v)
    if 'PROGRAM\n' in r.stdout:
        res['program'] = r.stdout.split('PROGRAM\n', 1)[1].split('\nSTDERR\n')[0].strip()
    return res


def _cls(res):
    """violation class: verdict + clause (+ first frames for crashes)"""
    if res['verdict'] == 'crash':
        return ('crash', res['clause'], ' '.join(res['msg'].split()[:3]))
    return (res['verdict'], res['clause'], '')


def _write(path, prop, cfg, mode, seed, disabled, tape, header):
    with open(path, 'w') as f:
        f.write('# dsim replay v1 -- re-run with: /verif/check --replay %s [-v]\n' % path)
        f.write('# mode %s\n' % mode)
        for l in header:
            f.write('# %s\n' % l)
        f.write('property %s\ncfg %s\nseed %d\n' % (prop, cfg, seed))
        if disabled:
            f.write('disable %s\n' % ' '.join(str(i) for i in sorted(disabled)))
        if tape is not None:
            f.write('tape\n')
            for t in tape:
                f.write(t + '\n')
            f.write('end\n')


def minimise(binary, env, prop, cfg, mode, run, path, budget_s=90, log=print):
    seed = run['seed']
    t0 = time.time()
    tmpd = tempfile.mkdtemp(prefix='dsim-shrink-', dir=os.environ.get('VERIF_BUILD', os.path.join(os.path.dirname(os.path.dirname(os.path.abspath(__file__))), 'build')))
    tapef = os.path.join(tmpd, 'tape.txt')
    cand = os.path.join(tmpd, 'cand.replay')
    # gate 1: the seed fails the same way in a fresh process; record its tape
    first = _run(binary, env, ['one', prop, cfg, str(seed)], extra_env={'DSIM_TAPE_OUT': tapef})
    want = _cls(first)
    if first['verdict'] != run['verdict'] or first['clause'] != run['clause']:
        log('  gate: worker saw %s/%s, fresh process saw %s/%s' % (run['verdict'], run['clause'], first['verdict'], first['clause']))
        return 'nondeterministic'
    header = ['violation: %s clause=%s' % (first['verdict'], first['clause']), 'message: ' + first['msg'][:400]]
    tape = []
    if os.path.exists(tapef):
        tape = [l.strip() for l in open(tapef) if l.strip()]
    runs = [0]

    def attempt(disabled, tp):
        _write(cand, prop, cfg, mode, seed, disabled, tp, [])
        runs[0] += 1
        return _cls(_run(binary, env, ['replay', cand], timeout=120)) == want

    best_dis, best_tape = set(), None
    if tape and attempt(set(), tape):
        best_tape = tape
    else:
        # tape replay does not reproduce (e.g. the tape was lost in a crash): keep the seed replay
        _write(path, prop, cfg, mode, seed, None, None, header + ['seed replay only (no tape could be recorded or tape replay diverged)', 'program:'] + first['program'].split('\n'))
        final = _run(binary, env, ['replay', path])
        return 'ok' if _cls(final) == want else 'nondeterministic'

    def ddmin(items, test):
        n = 2
        cur = list(items)
        while len(cur) >= 2 and time.time() - t0 < budget_s:
            chunk = max(1, len(cur) // n)
            reduced = False
            for i in range(0, len(cur), chunk):
                c = cur[:i] + cur[i + chunk:]
                if test(c):
                    cur = c
                    n = max(n - 1, 2)
                    reduced = True
                    break
                if time.time() - t0 > budget_s:
                    break
            if not reduced:
                if chunk == 1:
                    break
                n = min(n * 2, len(cur))
        if len(cur) == 1 and time.time() - t0 < budget_s and test([]):
            cur = []
        return cur

    ops = sorted(set(int(x) for x in re.findall(r'#(\d+) ', first['program'])))
    for rnd in range(2):
        # (1) program: switch operations off
        if ops:
            kept = ddmin([o for o in ops if o not in best_dis], lambda keep: attempt(set(ops) - set(keep), best_tape))
            best_dis = set(ops) - set(kept)
        # (2) tape: ddmin over entries
        before = len(best_tape)
        best_tape = ddmin(best_tape, lambda tp: attempt(best_dis, tp))
        # (3) lower remaining values towards 1
        for i, e in enumerate(list(best_tape)):
            if time.time() - t0 > budget_s:
                break
            tid, k, o, v = e.split()
            if int(v) > 1:
                c = list(best_tape)
                c[i] = '%s %s %s 1' % (tid, k, o)
                if attempt(best_dis, c):
                    best_tape = c
        if len(best_tape) == before:
            break
    # final: write, replay in a fresh process, must fail the same way
    _write(cand, prop, cfg, mode, seed, best_dis, best_tape, [])
    final = _run(binary, env, ['replay', cand])
    if _cls(final) != want:
        best_dis, best_tape = set(), tape
        final = _run(binary, env, ['replay', cand])
    header2 = ['violation: %s clause=%s' % (final['verdict'], final['clause']), 'message: ' + final['msg'][:400],
               'minimised from %d tape entries / %d operations to %d tape entries / %d operations in %d replays (%.1fs)'
               % (len(tape), len(ops), len(best_tape), len(ops) - len(best_dis), runs[0], time.time() - t0),
               'tape lines: <sim thread id> <decision kind> <per-thread ordinal (hook ordinal for preempt/stall)> <value>',
               'program of the minimised run:'] + final['program'].split('\n')
    _write(path, prop, cfg, mode, seed, best_dis, best_tape, header2)
    check = _run(binary, env, ['replay', path])
    log('  minimised: %d -> %d tape entries, %d -> %d operations, %d replays, %.1fs' % (len(tape), len(best_tape), len(ops), len(ops) - len(best_dis), runs[0], time.time() - t0))
    try:
        for f in os.listdir(tmpd):
            os.unlink(os.path.join(tmpd, f))
        os.rmdir(tmpd)
    except OSError:
        pass
    return 'ok' if _cls(check) == want else 'nondeterministic'


def forced_replay(binary, env, prop, cfg, mode, run, path):
    """a failure of the fault enumeration: seed + one forced I/O fault; nothing to minimise"""
    idx = run['index']
    c, k = (idx % 10000) // 10, idx % 10
    kinds = [1, 2, 3, 4]
    names = {1: 'short count', 2: 'EINTR', 3: 'EAGAIN', 4: 'EIO'}
    with open(path, 'w') as f:
        f.write('# dsim replay v1 -- re-run with: /verif/check --replay %s [-v]\n# mode %s\n' % (path, mode))
        f.write('# fault enumeration: %s forced at intercepted I/O call %d of the otherwise fault-free run of this seed\n' % (names[kinds[k]], c))
        f.write('# violation: %s clause=%s\n# message: %s\n' % (run['verdict'], run['clause'], run.get('msg', '')[:400]))
        f.write('property %s\ncfg %s\nseed %d\ntape force\n-1 iofault %d %d\nend\n' % (prop, cfg, run['seed'], c, kinds[k]))
    res = _run(binary, env, ['replay', path])
    return 'ok' if (res['verdict'], res['clause']) == (run['verdict'], run['clause']) else 'nondeterministic'

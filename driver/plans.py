"""per-property run plans: which builds/configurations, budgets, evidence wording"""
import subprocess, os

VERIF = os.path.dirname(os.path.dirname(os.path.abspath(__file__)))

ASSUMPTIONS = [
    "sampling, not enumeration: a clean batch is evidence, not proof",
    "the simulator serialises threads, so memory is sequentially consistent inside a run (no weak-memory reorderings)",
    "futex, POSIX semaphores, clocks, timerfd expiry, signalfd and signal delivery, sleep/yield, gettid, /proc/<tid>/stat and the CPU count are simulated (sim/sim.c); epoll, eventfd, pipes, sockets, files and malloc are the real kernel/libc",
    "only the Linux build of libdispatch is exercised (epoll back end, internal pthread workqueue); kevent/Mach/Windows code is not compiled",
    "hook mode schedules at atomics and intercepted calls only; the 'full' build additionally schedules at every non-stack memory access",
]

REAL_VS_STUB = {
    "real": ["every libdispatch translation unit of the Linux build (queue.c, source.c, event/*.c, semaphore.c, once.c, apply.c, data.c, io.c, time.c, object.c, init.c, allocator.c, block.cpp, shims/lock.c, shims/yield.c)", "BlocksRuntime", "kernel epoll/eventfd/pipes/socketpairs/regular files", "glibc or ASan malloc"],
    "simulated": ["thread scheduling (baton)", "futex", "POSIX semaphores", "CLOCK_MONOTONIC/BOOTTIME/REALTIME", "timerfd expiry (eventfd stand-in)", "signalfd / signal delivery (eventfd stand-in, sim_signal_raise, misfire fault)", "pthread_exit / sigsuspend of the main thread (dispatch_main)", "sleep/usleep/sched_yield", "gettid", "/proc/<tid>/stat", "CPU count", "faults on read/write/pread/pwrite/calloc/posix_memalign/pthread_create"],
    "not_compiled_on_linux": ["event_kevent.c", "event_windows.c", "mach.c", "voucher/firehose", "kevent workqueue / workloop-kevent paths"],
}

PROBE_NAMES = {
    0: "DIRTY seen while releasing the drain lock (drain_try_unlock)", 1: "barrier waiter handed the queue lock", 2: "non-barrier waiter redirected or woken",
    3: "concurrent drain stopped: no width / pending barrier", 4: "last reader took the lock for a pending barrier", 5: "suspend count spilled to the side counter",
    6: "suspend count pulled back from the side counter", 7: "semaphore time-out undid its decrement", 8: "semaphore time-out lost the race with a signal and drained the wake-up",
    9: "group wake with waiters", 10: "group wake with notify blocks", 11: "dispatch_once slow wait", 13: "pool monitor poked a queue with no runnable worker",
    14: "EPOLLHUP / hang-up merged", 15: "deferred source unregistration acknowledged", 16: "dispatch_sync slow path (waiter enqueued)",
    17: "dequeuer waited for a pre-empted enqueuer", 26: "queue found away from its target at drain entry (bounced to the new target)", 19: "dispatch_apply serial fallback", 20: "dispatch_apply redirect through custom queues",
}
UNUSUAL_NAMES = {0: "barrier-sync fast path refused", 1: "sync width reservation refused", 2: "async acquire refused"}


def rule_of(prop):
    try:
        return subprocess.run([os.path.join(os.environ.get('VERIF_BUILD', os.path.join(VERIF, 'build')), 'plain', 'dsim'), 'rule', prop], capture_output=True, text=True).stdout.strip()
    except Exception:
        return ''


DEFAULT_CONFIGS = [
    {'name': 'plain-nofault', 'mode': 'plain', 'cfg': 'nofault', 'share': 5},
    {'name': 'plain-faulty', 'mode': 'plain', 'cfg': 'faulty', 'share': 5},
    {'name': 'asan-faulty', 'mode': 'asan', 'cfg': 'faulty', 'share': 4},
    {'name': 'full-nofault', 'mode': 'full', 'cfg': 'nofault', 'share': 2},
]

OVERRIDES = {
    'C14': {
        'level': 'fault_enumeration',
        'configs': DEFAULT_CONFIGS + [
            # every single fault kind at every I/O call index of a fault-free run (DESIGN.md 3.14)
            {'name': 'plain-enumeration', 'mode': 'plain', 'cfg': 'nofault', 'share': 3, 'cmd': 'enum', 'counter': 2},
            {'name': 'asan-enumeration', 'mode': 'asan', 'cfg': 'nofault', 'share': 1, 'cmd': 'enum', 'counter': 2},
        ],
    },
}


def plan_for(prop, tier):
    cfgs = [dict(c) for c in OVERRIDES.get(prop, {}).get('configs', DEFAULT_CONFIGS)]
    # selftest only (mutation campaign): VERIF_SKIP_MODES=full leaves a build out to save compile time
    skip = set(filter(None, os.environ.get('VERIF_SKIP_MODES', '').split(',')))
    if skip: cfgs = [c for c in cfgs if c['mode'] not in skip]
    budget = float(os.environ.get('VERIF_BUDGET_S', '0')) or (40 if tier == 'quick' else 540)
    p = {
        'configs': cfgs,
        'budget_s': budget,
        'level': OVERRIDES.get(prop, {}).get('level', 'exploration'),
        'rule': 'seeded search: every run draws a client program, a scheduling strategy (walk/pct/stall/fair), knob values and fault kinds from one seed = H(VERIF_SEED, property, configuration, index); ' + rule_of(prop),
        'determinism_seeds': 48 if tier == 'quick' else 480,
        'shrink_budget_s': 90 if tier == 'quick' else 240,
    }
    p.update({k: v for k, v in OVERRIDES.get(prop, {}).items() if k not in ('configs', 'level')})
    return p

# builds /verif/build/<mode>/dsim from /repo's working tree (hooks on) + simulator + harness
# modes: plain (hook mode), asan (hook mode + AddressSanitizer), full (compiler-instrumented plain accesses)
MODE ?= plain
REPO ?= /repo
BUILDROOT ?= /verif/build
B := $(BUILDROOT)/$(MODE)
CC := clang-14
CXX := clang++-14

LIBFLAGS_plain := -DDISPATCH_VERIF=1
LIBFLAGS_asan  := -DDISPATCH_VERIF=1 -fsanitize=address -fno-omit-frame-pointer
LIBFLAGS_full  := -DDISPATCH_VERIF=1 -DDISPATCH_VERIF_TSAN=1 -fsanitize=thread -mllvm -tsan-instrument-func-entry-exit=0
HFLAGS_plain :=
HFLAGS_asan  := -fsanitize=address -fno-omit-frame-pointer -DDSIM_ASAN=1
HFLAGS_full  := -DDSIM_FULL=1
LDFLAGS_plain :=
LDFLAGS_asan  := -fsanitize=address
LDFLAGS_full  :=

WRAPS := pthread_create pthread_exit sigsuspend pthread_key_create syscall sem_init sem_destroy sem_post sem_wait sem_timedwait \
	clock_gettime gettimeofday usleep sleep sched_yield epoll_wait epoll_ctl eventfd_write eventfd_read \
	read write pread pwrite close timerfd_create timerfd_settime signalfd open calloc posix_memalign
WRAPFLAGS := $(foreach w,$(WRAPS),-Wl,--wrap=$(w))

SIM_SRC := sim/sim.c $(if $(filter full,$(MODE)),sim/tsanrt.c)
H_SRC := $(wildcard harness/*.c)
OBJS := $(patsubst %.c,$(B)/obj/%.o,$(SIM_SRC) $(H_SRC))
CFLAGS := -O1 -g -fblocks -Wall -Wextra -Wno-unused-parameter -I$(REPO) -I$(REPO)/src/BlocksRuntime $(HFLAGS_$(MODE))

# two steps, two make processes: the library first (ninja decides what is out of date in $(REPO)), then a fresh look
# at the time stamps for the link
all:
	@$(MAKE) --no-print-directory lib
	@$(MAKE) --no-print-directory $(B)/dsim

$(B)/build.ninja:
	mkdir -p $(B)
	cmake -G Ninja -S $(REPO) -B $(B) -DCMAKE_C_COMPILER=$(CC) -DCMAKE_CXX_COMPILER=$(CXX) \
		-DBUILD_SHARED_LIBS=OFF -DBUILD_TESTING=OFF -DCMAKE_BUILD_TYPE=RelWithDebInfo \
		"-DCMAKE_C_FLAGS_RELWITHDEBINFO=-O1 -g" "-DCMAKE_CXX_FLAGS_RELWITHDEBINFO=-O1 -g" \
		"-DCMAKE_C_FLAGS=$(LIBFLAGS_$(MODE))" "-DCMAKE_CXX_FLAGS=$(LIBFLAGS_$(MODE))" > $(B)/configure.log 2>&1 \
		|| { cat $(B)/configure.log; rm -f $(B)/build.ninja; exit 1; }

.PHONY: lib all
lib: $(B)/build.ninja
	@ninja -C $(B) > $(B)/ninja.log 2>&1 || { cat $(B)/ninja.log; exit 1; }

$(B)/obj/%.o: %.c
	@mkdir -p $(dir $@)
	$(CC) $(CFLAGS) -MMD -MP -c $< -o $@

# linked only when an object or the library is newer, and replaced atomically: another check may be executing the old
# binary at this moment (two checks started side by side used to meet "Permission denied" / "Text file busy")
$(B)/dsim: $(OBJS) $(B)/src/libdispatch.a
	$(CXX) $(LDFLAGS_$(MODE)) -o $@.new.$$$$ $(OBJS) $(WRAPFLAGS) $(B)/src/libdispatch.a $(B)/src/BlocksRuntime/libBlocksRuntime.a -lpthread -lrt && mv -f $@.new.$$$$ $@


-include $(OBJS:.o=.d)

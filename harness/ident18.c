// C18: queue identity, queue-specific data (context half, via the queue-program interpreter) and attributes /
// global-queue lookup (plain enumeration of a finite table, labelled as such in the evidence)
#include "qprog.h"

extern dispatch_queue_attr_t dispatch_queue_attr_make_with_overcommit(dispatch_queue_attr_t attr, bool overcommit);

static const unsigned qos_classes[7] = { QOS_CLASS_UNSPECIFIED, QOS_CLASS_MAINTENANCE, QOS_CLASS_BACKGROUND, QOS_CLASS_UTILITY, QOS_CLASS_DEFAULT, QOS_CLASS_USER_INITIATED, QOS_CLASS_USER_INTERACTIVE };
static const char *const qos_names[7] = { "unspecified", "maintenance", "background", "utility", "default", "user-initiated", "user-interactive" };
// this platform has no QoS-aware work queues: MAINTENANCE is served by BACKGROUND, USER_INTERACTIVE by USER_INITIATED
static unsigned clamp_qos(unsigned c) { return c == QOS_CLASS_MAINTENANCE ? QOS_CLASS_BACKGROUND : c == QOS_CLASS_USER_INTERACTIVE ? QOS_CLASS_USER_INITIATED : c; }

static int attr_cases, gq_cases;

static dispatch_queue_attr_t compose(const int *order, int conc, int inactive, int qi, int relpri, int oc, int arf) {
	dispatch_queue_attr_t a = conc ? DISPATCH_QUEUE_CONCURRENT : DISPATCH_QUEUE_SERIAL;
	for (int k = 0; k < 4; k++) switch (order[k]) {
	case 0: if (inactive) a = dispatch_queue_attr_make_initially_inactive(a); break;
	case 1: if (qi) a = dispatch_queue_attr_make_with_qos_class(a, qos_classes[qi], relpri); break;
	case 2: if (oc) a = dispatch_queue_attr_make_with_overcommit(a, oc == 1); break;
	case 3: if (arf) a = dispatch_queue_attr_make_with_autorelease_frequency(a, arf == 1 ? DISPATCH_AUTORELEASE_FREQUENCY_WORK_ITEM : DISPATCH_AUTORELEASE_FREQUENCY_NEVER); break;
	}
	return a;
}
static int ran_item;
static void tiny_item(void *c) { (void)c; ran_item++; }
// concurrency the attribute denotes: two items of a serial queue never overlap; a concurrent queue runs a second
// item while the first one is blocked
static struct { int in_flight, max_in_flight, started, expect_conc; sim_event second_started; } CC;
static void conc_item(void *c) {
	(void)c;
	if (++CC.in_flight > CC.max_in_flight) CC.max_in_flight = CC.in_flight;
	// whichever of the two starts first stays inside until the other one has started (concurrent attribute) or for
	// long enough for a second worker to show up (serial attribute)
	if (++CC.started == 2) sim_event_signal(&CC.second_started);
	else if (CC.expect_conc) sim_event_wait(&CC.second_started, LIVENESS_NS);
	else { sim_point(); sim_sleep_ns(300 * USEC); }
	sim_point();
	CC.in_flight--;
}
// an axis value: the extremes of every axis are over-represented (decoding errors live at the ends of the table)
static int axis(uint32_t n) { return g_chance(1, 3) ? (g_chance(1, 2) ? (int)n - 1 : 0) : (int)g_n(n); }

static void attr_case(void) {
	int conc = (int)g_n(2), inactive = (int)g_n(2), qi = axis(7), relpri = qi ? -axis(16) : 0, oc = axis(3), arf = axis(3);
	int o1[4] = { 0, 1, 2, 3 }, o2[4] = { 0, 1, 2, 3 };
	for (int i = 3; i > 0; i--) { int j = (int)g_n((uint32_t)i + 1), t = o1[i]; o1[i] = o1[j]; o1[j] = t; j = (int)g_n((uint32_t)i + 1); t = o2[i]; o2[i] = o2[j]; o2[j] = t; }
	dispatch_queue_attr_t a = compose(o1, conc, inactive, qi, relpri, oc, arf), b = compose(o2, conc, inactive, qi, relpri, oc, arf);
	attr_cases++;
	if (a != b) h_viol("attr-order", "the same attribute built in two constructor orders gives different attribute objects (concurrent %d inactive %d qos %s relpri %d overcommit %d autorelease %d)", conc, inactive, qos_names[qi], relpri, oc, arf);
	char label[40]; snprintf(label, sizeof label, "c18.%d.%d.%d.%d", conc, inactive, qi, -relpri);
	dispatch_queue_t q = dispatch_queue_create(label, a);
	if (!q) h_viol("attr-create", "dispatch_queue_create failed for a valid attribute");
	if (strcmp(dispatch_queue_get_label(q), label)) h_viol("attr-label", "queue label '%s' != '%s'", dispatch_queue_get_label(q), label);
	int rp = 99; unsigned got = (unsigned)dispatch_queue_get_qos_class(q, &rp);
	if (got != clamp_qos(qos_classes[qi]) || rp != relpri)
		h_viol("attr-qos", "queue created with QoS %s relative priority %d reports class 0x%x relative priority %d (expected class 0x%x)", qos_names[qi], relpri, got, rp, clamp_qos(qos_classes[qi]));
	// initial activity: an inactive queue runs nothing until activated
	ran_item = 0;
	dispatch_async_f(q, NULL, tiny_item);
	if (inactive) {
		sim_sleep_ns(200 * USEC);
		if (ran_item) h_viol("attr-inactive", "a queue created initially inactive ran an item before dispatch_activate");
		dispatch_activate(q);
	}
	dispatch_barrier_sync_f(q, NULL, tiny_item);
	if (ran_item != 2) h_viol("attr-activity", "queue ran %d of 2 items", ran_item);
	memset(&CC, 0, sizeof CC); CC.expect_conc = conc;
	dispatch_async_f(q, (void *)0, conc_item); dispatch_async_f(q, (void *)1, conc_item);
	dispatch_barrier_sync_f(q, NULL, tiny_item);
	if (!conc && CC.max_in_flight != 1) h_viol("attr-concurrency", "two items of a queue created from a serial attribute overlapped (qos %s relpri %d overcommit %d autorelease %d inactive %d)", qos_names[qi], relpri, oc, arf, inactive);
	if (CC.expect_conc && CC.max_in_flight != 2) h_viol("attr-concurrency", "a queue created from a concurrent attribute did not start a second item while the first was blocked (qos %s relpri %d overcommit %d autorelease %d inactive %d)", qos_names[qi], relpri, oc, arf, inactive);
	dispatch_release(q);
}

static const char *root_label(unsigned cls, int oc) {
	static char b[64];
	const char *n = cls == QOS_CLASS_BACKGROUND ? "background" : cls == QOS_CLASS_UTILITY ? "utility" : cls == QOS_CLASS_DEFAULT ? "default" : cls == QOS_CLASS_USER_INITIATED ? "user-initiated" : cls == QOS_CLASS_MAINTENANCE ? "maintenance" : "user-interactive";
	snprintf(b, sizeof b, "com.apple.root.%s-qos%s", n, oc ? ".overcommit" : "");
	return b;
}
static void global_queue_cases(void) {
	struct { long id; unsigned cls; } ids[] = {
		{ DISPATCH_QUEUE_PRIORITY_HIGH, QOS_CLASS_USER_INITIATED }, { DISPATCH_QUEUE_PRIORITY_DEFAULT, QOS_CLASS_DEFAULT },
		{ DISPATCH_QUEUE_PRIORITY_LOW, QOS_CLASS_UTILITY }, { DISPATCH_QUEUE_PRIORITY_BACKGROUND, QOS_CLASS_BACKGROUND },
		{ QOS_CLASS_USER_INTERACTIVE, QOS_CLASS_USER_INTERACTIVE }, { QOS_CLASS_USER_INITIATED, QOS_CLASS_USER_INITIATED }, { QOS_CLASS_DEFAULT, QOS_CLASS_DEFAULT },
		{ QOS_CLASS_UTILITY, QOS_CLASS_UTILITY }, { QOS_CLASS_BACKGROUND, QOS_CLASS_BACKGROUND }, { QOS_CLASS_MAINTENANCE, QOS_CLASS_MAINTENANCE } };
	dispatch_queue_t seen[10][2];
	for (int i = 0; i < 10; i++) for (int oc = 0; oc < 2; oc++) {
		dispatch_queue_t q = dispatch_get_global_queue(ids[i].id, oc ? 2 /* DISPATCH_QUEUE_OVERCOMMIT */ : 0);
		gq_cases++;
		seen[i][oc] = q;
		if (!q) h_viol("global-queue-null", "dispatch_get_global_queue(%ld, %d) returned NULL for a documented identifier", ids[i].id, oc ? 2 : 0);
		unsigned want = clamp_qos(ids[i].cls);
		if (strcmp(dispatch_queue_get_label(q), root_label(want, oc)))
			h_viol("global-queue-class", "dispatch_get_global_queue(%ld, %d) returned '%s', the documented class is served by '%s'", ids[i].id, oc ? 2 : 0, dispatch_queue_get_label(q), root_label(want, oc));
	}
	for (int i = 0; i < 10; i++) for (int j = 0; j < 10; j++) for (int oc = 0; oc < 2; oc++) {
		bool same_cls = clamp_qos(ids[i].cls) == clamp_qos(ids[j].cls);
		if (same_cls != (seen[i][oc] == seen[j][oc])) h_viol("global-queue-identity", "identifiers %ld and %ld: %s classes but %s queues", ids[i].id, ids[j].id, same_cls ? "equal" : "different", seen[i][oc] == seen[j][oc] ? "the same" : "different");
	}
	// undefined identifiers or flags
	long bad_ids[] = { 1, 3, -1, 7, 0x22, 0x1000, -32767 }; unsigned long bad_flags[] = { 1, 4, 8, 3, 0x80000000ul };
	for (unsigned i = 0; i < sizeof bad_ids / sizeof bad_ids[0]; i++) { gq_cases++; if (dispatch_get_global_queue(bad_ids[i], 0)) h_viol("global-queue-bad-input", "dispatch_get_global_queue(%ld, 0) did not return NULL for an undefined identifier", bad_ids[i]); }
	for (unsigned i = 0; i < sizeof bad_flags / sizeof bad_flags[0]; i++) { gq_cases++; if (dispatch_get_global_queue(0, bad_flags[i])) h_viol("global-queue-bad-input", "dispatch_get_global_queue(0, 0x%lx) did not return NULL for undefined flags", bad_flags[i]); }
}

static dispatch_queue_t xq, xother; static int xmode;
static sim_event xheld, xrelease;
static void hold_item(void *c) { (void)c; sim_event_signal(&xheld); sim_event_wait(&xrelease, 5 * NSEC); }
static void crash_item(void *c) {
	(void)c;
	if (xmode == 3) { h_expect_crash("dispatch_assert_queue_barrier(a queue outside the item's chain)"); dispatch_assert_queue_barrier(xother); }
	if (xmode == 0) { h_expect_crash("dispatch_assert_queue_not(the queue the item runs on)"); dispatch_assert_queue_not(xq); }
	else if (xmode == 1) { h_expect_crash("dispatch_assert_queue(a queue outside the item's chain)"); dispatch_assert_queue(xother); }
	else { h_expect_crash("dispatch_assert_queue_not(the target of the queue the item runs on)"); dispatch_assert_queue_not(xother); }
}

static void c18_run(void) {
	int ncases = (RC.cfg & CFG_THOROUGH) ? 48 : 16;
	// context half
	qgen g; qgen_defaults(&g);
	g.oracles = O_SPECIFIC;
	g.specific = 1;
	g.qkindmask = (1u << QK_SERIAL) | (1u << QK_CONC) | (1u << QK_GLOBAL);
	if (g_chance(1, 4)) g.qkindmask |= 1u << QK_WORKLOOP;   // chains that end in a workloop
	g.opmask |= (1u << OP_APPLY) | (1u << OP_BARRIER_AAW);
	g.min_queues = 2; g.max_queues = 6; g.max_qdepth = 4; g.nest_pct = 40; g.nest_depth = 3;
	g.min_clients = 2; g.max_clients = 4; g.max_ops = 7;
	g.retarget = 2;   // a third of the runs move an active leaf queue under another queue: identity follows the new chain
	if (g_chance(1, 3)) { g.use_main = 1; g.main_tree = 1; g.qkindmask |= 1u << QK_MAIN; g.nest_pct = 60; }   // hierarchies rooted at the main queue
	qprog_run(&g);
	// attribute / global-queue half: a slice of the finite table per run, after the simulated part (fair scheduling,
	// no faults: "a concurrent queue starts a second item while the first is blocked" is a progress statement)
	sim_set_fair();
	for (int i = 0; i < ncases; i++) attr_case();
	global_queue_cases();
	RES.counters[QC_ORDER_PAIRS] = attr_cases; RES.counters[QC_HIER_DEPTH_SUM] = gq_cases;
	if (g_chance(1, 20)) {
		// expected-crash run: the last action must be refused by the library
		xmode = (int)g_n(5);   // 4: from a plain thread, outside any item
		xother = dispatch_queue_create("c18-other", NULL);
		xq = xmode == 2 ? dispatch_queue_create_with_target("c18-x", NULL, xother) : dispatch_queue_create("c18-x", NULL);
		// positive forms first
		dispatch_sync(xq, ^{ dispatch_assert_queue(xq); if (xmode == 2) dispatch_assert_queue(xother); else dispatch_assert_queue_not(xother); });
		// the foreign queue is often busy on another thread at that moment: whose lock it is matters, not that it is held
		if ((xmode == 1 || xmode == 3 || xmode == 4) && g_chance(2, 3)) { dispatch_async_f(xother, NULL, hold_item); sim_event_wait(&xheld, LIVENESS_NS); }
		if (xmode == 4) { h_expect_crash("dispatch_assert_queue(a queue) from a thread that is not running any of its items"); dispatch_assert_queue(xother); }
		else if (g_chance(1, 2)) dispatch_sync_f(xq, NULL, crash_item);
		else { dispatch_async_f(xq, NULL, crash_item); sim_sleep_ns(50 * MSEC); }
		h_viol("expected-crash-missing", "an assertion that must fail returned");
	}
}
static const char *const c18_names[] = { "items", "sync_calls", "runs_with_overlapping_readers", "barrier_items", "nested_ops", "poolblock_runs", "gate_runs", "suspend_calls",
	"suspend_windows", "committed_starts_in_window", "workloop_runs", "mainq_runs", "apply_iterations", "inactive_queues", "global_queue_lookups_enumerated", "attribute_compositions_enumerated",
	"get_specific_checks", "assert_queue_calls", NULL };
const prop_def prop_C18 = { "C18", NULL, c18_run, c18_names,
	"non-trivial: >=2 items completed with a pre-emption/stall inside a queue's atomics (context half: get_specific / assert_queue on every submission path); distinct = distinct schedule signatures among those. The attribute and global-queue half (attribute_compositions_enumerated, global_queue_lookups_enumerated) is plain enumeration of a finite table, sampled per run, and is not simulation" };

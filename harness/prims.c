// C07 groups, C08 semaphores, C09 once (+ the hand-off edges of C05 that use them)
#include "h.h"

#define MAXTH 8
#define MAXOPS 24   // >= 2 x the longest generated sequence: the balancing leaves must always fit

/* =========================================================== C08: semaphores */
enum { S_WAIT_FOREVER, S_WAIT_TIMED, S_WAIT_NOW, S_SIGNAL, S_PAUSE, S_N };
typedef struct sop { int idx, kind; uint64_t arg; } sop;
static struct {
	dispatch_semaphore_t sema; long v;
	int nth; sop ops[MAXTH][MAXOPS]; int nops[MAXTH];
	long signals_called, signals_returned, successes, timeouts;
	int blocked_forever;        // threads currently inside a wait call (any kind)
	int timeout_during_signal;  // a timed wait returned non-zero while a signal call was in flight
	int signals_in_flight;
	int done;
	// C05 edge: plain payload published before each signal
	uint64_t pub_seq;
} S;
static const char *const snames[S_N] = { "wait_forever", "wait_timed", "wait_now", "signal", "pause" };

static void sema_after_success(int th, const char *how) {
	S.successes++;
	h_log("t%d %s -> 0 (successes %ld, v %ld, signals called %ld)", th, how, S.successes, S.v, S.signals_called);
	if (S.successes > S.v + S.signals_called)
		h_viol("spurious-success", "%ld waits have returned zero but only v=%ld + %ld signals have started", S.successes, S.v, S.signals_called);
}
static void *sema_thread(void *arg) {
	int th = (int)(intptr_t)arg;
	for (int i = 0; i < S.nops[th]; i++) {
		sop *op = &S.ops[th][i];
		if (!op_on(op->idx)) continue;
		switch (op->kind) {
		case S_SIGNAL:
			S.signals_called++; S.signals_in_flight++; S.pub_seq++;
			h_log("t%d call signal", th);
			dispatch_semaphore_signal(S.sema);
			S.signals_in_flight--; S.signals_returned++;
			h_log("t%d ret signal", th);
			break;
		case S_WAIT_FOREVER:
			S.blocked_forever++;
			h_log("t%d call wait forever", th);
			if (dispatch_semaphore_wait(S.sema, DISPATCH_TIME_FOREVER) != 0)
				h_viol("forever-timeout", "dispatch_semaphore_wait(FOREVER) returned non-zero");
			S.blocked_forever--;
			sema_after_success(th, "wait forever");
			break;
		case S_WAIT_NOW:
			h_log("t%d call wait now", th);
			S.blocked_forever++;   // a polling wait that loses the undo race waits for the wake-up owed to it
			long rn = dispatch_semaphore_wait(S.sema, DISPATCH_TIME_NOW);
			S.blocked_forever--;
			if (rn == 0) sema_after_success(th, "wait now");
			else { S.timeouts++; h_log("t%d wait now -> timeout", th); }
			break;
		case S_WAIT_TIMED: {
			// the time-out is expressed on one of the three clocks
			int ck = op->idx % 3; dispatch_time_t t; uint64_t deadline; int clkid;
			if (ck == 0) { t = dispatch_time(DISPATCH_TIME_NOW, (int64_t)op->arg); deadline = (uint64_t)t; clkid = CLOCK_MONOTONIC; }
			else if (ck == 1) { t = dispatch_time(1ull << 63 /* DISPATCH_MONOTONICTIME_NOW */, (int64_t)op->arg); deadline = (uint64_t)t & ~(1ull << 63); clkid = CLOCK_BOOTTIME; }
			else { t = dispatch_walltime(NULL, (int64_t)op->arg); deadline = (uint64_t)(-(int64_t)t); clkid = CLOCK_REALTIME; }
			h_log("t%d call wait timed %lu ns", th, (unsigned long)op->arg);
			S.blocked_forever++;
			long r = dispatch_semaphore_wait(S.sema, t);
			S.blocked_forever--;
			if (r == 0) sema_after_success(th, "wait timed");
			else {
				uint64_t now = sim_clock_hw(clkid);
				S.timeouts++;
				if (S.signals_in_flight) S.timeout_during_signal = 1;
				h_log("t%d wait timed -> timeout", th);
				if (now < deadline)
					h_viol("early-timeout", "timed dispatch_semaphore_wait returned non-zero %lu ns before its deadline", (unsigned long)(deadline - now));
			}
			break; }
		case S_PAUSE: sim_sleep_ns(op->arg); break;
		}
		sim_point();
	}
	S.done++;
	h_progress();
	return NULL;
}
static bool sema_all_done(void *c) { (void)c; return S.done == S.nth; }
static bool sema_progress_pred(void *c) { long *want = c; return S.successes >= *want || S.done == S.nth; }

static void c08_run(void) {
	memset(&S, 0, sizeof S);
	S.v = (long)g_n(4);
	// an eighth of the runs: a value around the points where the count crosses a 32-bit boundary (the count is a long;
	// nobody ever blocks then, every wait must return zero at once and the value must move by exactly one per call)
	if (g_chance(1, 8)) { static const long big[] = { 0x7ffffffe, 0x80000000l, 0xfffffffel, 0x100000001l, 0x200000000l, 0x3fffffffffffffffl }; S.v = big[g_n(6)] + (long)g_n(3); }
	S.nth = g_range(2, (RC.cfg & CFG_THOROUGH) ? 6 : 5);
	int idx = 0;
	static const uint64_t touts[] = { 1000, 20000, 100000, 500000, 2000000, 5000000 };
	int shape = (int)g_n(3);   // 0 mixed, 1 timeouts racing signals, 2 mostly forever
	for (int t = 0; t < S.nth; t++) {
		S.nops[t] = g_range(2, 6);
		for (int i = 0; i < S.nops[t]; i++) {
			sop *op = &S.ops[t][i]; op->idx = idx++;
			uint32_t r = g_n(100);
			if (shape == 1) op->kind = r < 45 ? S_WAIT_TIMED : r < 85 ? S_SIGNAL : r < 92 ? S_PAUSE : S_WAIT_NOW;
			else if (shape == 2) op->kind = r < 35 ? S_WAIT_FOREVER : r < 75 ? S_SIGNAL : r < 85 ? S_WAIT_TIMED : S_PAUSE;
			else op->kind = r < 20 ? S_WAIT_FOREVER : r < 40 ? S_WAIT_TIMED : r < 50 ? S_WAIT_NOW : r < 88 ? S_SIGNAL : S_PAUSE;
			op->arg = op->kind == S_PAUSE ? (uint64_t)g_range(1, 400) * USEC : touts[g_n(6)];
		}
	}
	h_sample("semaphore v=%ld\n", S.v);
	for (int t = 0; t < S.nth; t++) {
		h_sample("thread %d:", t);
		for (int i = 0; i < S.nops[t]; i++) if (op_on(S.ops[t][i].idx)) {
			h_sample(" #%d %s", S.ops[t][i].idx, snames[S.ops[t][i].kind]);
			if (S.ops[t][i].kind == S_WAIT_TIMED || S.ops[t][i].kind == S_PAUSE) h_sample("(%luus)", (unsigned long)(S.ops[t][i].arg / 1000));
		}
		h_sample("\n");
	}
	h_announce();
	S.sema = dispatch_semaphore_create(S.v);
	sim_watch(S.sema, 96);
	sim_thread *th[MAXTH];
	for (int t = 0; t < S.nth; t++) th[t] = sim_spawn(sema_thread, (void *)(intptr_t)t, "sema-client");
	h_end_fault_phase(th, S.nth, 10 * NSEC);
	// all signals of the program have been issued or their threads are blocked in a FOREVER wait
	for (int round = 0; round < 64 && S.done < S.nth; round++) {
		// quiescent now? every unfinished thread sits in a FOREVER wait
		h_settle(50 * MSEC);
		if (S.done == S.nth) break;
		long avail = S.v + S.signals_returned - S.successes;
		if (S.blocked_forever > 0 && avail > 0 && S.signals_in_flight == 0) {
			char b[200]; snprintf(b, sizeof b, "%d thread(s) blocked in dispatch_semaphore_wait although %ld permit(s) are available (v=%ld signals=%ld successes=%ld)",
				S.blocked_forever, avail, S.v, S.signals_returned, S.successes);
			h_stuck("lost-signal", b);
		}
		if (S.blocked_forever == 0) { h_stuck("liveness", "a semaphore client neither finished nor sits in a wait call"); }
		// release one blocked waiter with an extra signal from the harness
		long want = S.successes + 1;
		S.signals_called++; S.signals_in_flight++;
		h_log("main: extra signal");
		dispatch_semaphore_signal(S.sema);
		S.signals_in_flight--; S.signals_returned++;
		if (h_wait_until(sema_progress_pred, &want, LIVENESS_NS)) h_stuck("lost-signal", "a waiter blocked without timeout was not released by a signal");
	}
	if (h_wait_until(sema_all_done, NULL, LIVENESS_NS)) h_stuck("liveness", "semaphore clients did not finish");
	// conservation: exactly v + signals - successes permits remain obtainable
	long expect = S.v + S.signals_returned - S.successes, got = 0;
	if (expect > 100000) {
		// too many to drain: a few polls must all succeed at once (every kind of wait on a count that large)
		for (int k = 0; k < 6; k++) if (dispatch_semaphore_wait(S.sema, k & 1 ? DISPATCH_TIME_NOW : dispatch_time(DISPATCH_TIME_NOW, 1000000)) != 0)
			h_viol("conservation", "a wait timed out although %ld permits are available (v=%ld)", expect - k, S.v);
		got = expect;
	} else
	while (got <= expect + 2 && dispatch_semaphore_wait(S.sema, DISPATCH_TIME_NOW) == 0) got++;
	h_log("drain: expect %ld got %ld", expect, got);
	if (got != expect)
		h_viol("conservation", "after all calls finished %ld permit(s) were obtainable, expected v + signals - successful waits = %ld + %ld - %ld = %ld",
			got, S.v, S.signals_returned, S.successes, expect);
	RES.counters[0] = S.signals_returned; RES.counters[1] = S.successes; RES.counters[2] = S.timeouts; RES.counters[3] = S.timeout_during_signal;
	RES.nontrivial = S.timeouts > 0 && S.successes > 0 && (sim_st.watched_preempts > 0 || sim_st.fired[K_STALL] > 0);
	// restore the value before exit so that the library's dispose check is not an issue (process exits anyway)
}
static void no_walljump(sim_knobs *k, unsigned cfg, uint64_t *g) {
	(void)cfg; (void)g;
	k->timefault_mask &= 1u;   // warps only: the property does not speak about wall-clock steps (DESIGN 3.8)
	if (k->tick_ns == 0 && (g[0] & 1)) k->tick_ns = 200;
}
static const char *const c08_names[] = { "signals", "successful_waits", "timeouts", "runs_with_timeout_during_signal", NULL };
const prop_def prop_C08 = { "C08", no_walljump, c08_run, c08_names,
	"non-trivial: at least one wait timed out and one succeeded, with a pre-emption/stall taken inside the semaphore's atomics; distinct = distinct schedule signatures among those (runs_with_timeout_during_signal counts runs where a time-out expired while a signal call was between call and return)" };

/* =========================================================== C07: groups */
enum { G_ENTER, G_LEAVE, G_ASYNC, G_NOTIFY, G_WAIT_FOREVER, G_WAIT_TIMED, G_WAIT_NOW, G_PAUSE, G_ENTER_HANDOFF, G_N };
static const char *const gnames[G_N] = { "enter", "leave", "group_async", "notify", "wait_forever", "wait_timed", "wait_now", "pause", "enter+leave-from-item" };
typedef struct gop { int idx, kind, grp, q; uint64_t arg; int rec; } gop;
typedef struct gwatch { int active, grp; long minL; uint64_t call; int kind; uint64_t start; int count; int stale; } gwatch;
#define MAXW 128
static struct {
	dispatch_group_t g[2]; int ng;
	long L[2];                 // enters returned - leaves called
	long enters[2], leaves[2];
	dispatch_queue_t q[3];
	int nth; gop ops[MAXTH][MAXOPS]; int nops[MAXTH];
	gwatch w[MAXW]; int nw;    // one record per wait call / notify registration
	int done, waits_zero, waits_timeout, notifies, generations;
	int pending_async;         // group_async / hand-off items not finished
	uint64_t payload[2], payload_ck[2];
} GP;

static void g_changed(int grp) {
	for (int i = 0; i < GP.nw; i++) if (GP.w[i].active && GP.w[i].grp == grp && GP.L[grp] < GP.w[i].minL) GP.w[i].minL = GP.L[grp];
	if (GP.L[grp] == 0) GP.generations++;
}
static int g_watch_begin(int grp, int kind) {
	if (GP.nw >= MAXW) h_viol("harness", "too many watches");
	gwatch *w = &GP.w[GP.nw]; w->active = 1; w->grp = grp; w->minL = GP.L[grp]; w->call = h_stamp(); w->kind = kind; w->count = 0;
	// a thread that saw some group empty (a leave reaching zero, or a notify finding zero) is still on
	// its way to collect the notify list
	w->stale = sim_st.probe[22] > sim_st.probe[23] || sim_st.probe[24] > sim_st.probe[25];
	return GP.nw++;
}
static void g_enter(int grp) { dispatch_group_enter(GP.g[grp]); GP.L[grp]++; GP.enters[grp]++; h_log("  L[g%d]=%ld after enter", grp, GP.L[grp]); }
static void g_leave(int grp) {
	GP.L[grp]--; GP.leaves[grp]++; g_changed(grp);
	h_log("  L[g%d]=%ld before leave", grp, GP.L[grp]);
	GP.payload[grp]++; GP.payload_ck[grp] = ~GP.payload[grp];
	dispatch_group_leave(GP.g[grp]);
}
typedef struct gitem { int grp; int handoff; int body; int nest, q; } gitem;
static void g_item_fn(void *ctx) {
	gitem *it = ctx;
	if (it->body) sim_point();
	if (it->nest == 1) {
		// the item fans out into the other group (or its own one) before it ends: the leave implied for this item
		// still belongs to this item's group
		int g2 = GP.ng > 1 ? 1 - it->grp : it->grp;
		gitem *n = malloc(sizeof *n); n->grp = g2; n->handoff = 0; n->body = 1; n->nest = 0; n->q = it->q;
		h_log("item of g%d: group_async g%d", it->grp, g2);
		GP.pending_async++;
		dispatch_group_async_f(GP.g[g2], GP.q[(it->q + 1) % 3], n, g_item_fn);
		GP.L[g2]++; GP.enters[g2]++;
	} else if (it->nest == 2) {
		gitem *n = malloc(sizeof *n); n->grp = it->grp; n->handoff = 1; n->body = 0; n->nest = 0; n->q = it->q;
		h_log("item of g%d: enter g%d, leave handed to a plain async item", it->grp, it->grp);
		dispatch_group_enter(GP.g[it->grp]); GP.L[it->grp]++; GP.enters[it->grp]++; GP.pending_async++;
		dispatch_async_f(GP.q[(it->q + 1) % 3], n, g_item_fn);
	}
	if (it->handoff) { h_log("item: leave g%d", it->grp); g_leave(it->grp); }
	else { GP.L[it->grp]--; GP.leaves[it->grp]++; g_changed(it->grp); h_log("item: end of group_async body g%d", it->grp); }
	GP.pending_async--;
	h_progress();
	free(it);
}
static void g_notify_fn(void *ctx) {
	gwatch *w = ctx;
	w->start = h_stamp(); w->count++;
	h_log("notify block %d of g%d runs (minL %ld)", (int)(w - GP.w), w->grp, w->minL);
	if (w->count > 1) h_viol("notify-twice", "a dispatch_group_notify block ran %d times", w->count);
	if (w->minL > 0)
		// registered while a leave that had taken the group to zero was still on its way to collect
		// the notify list: the signature of known finding F9; anything else is a different violation
		h_viol(w->stale ? "notify-early-stale-leaver" : "notify-early", "notify block of group %d ran although enters returned - leaves called stayed >= %ld from its registration on", w->grp, w->minL);
	if (GP.payload_ck[w->grp] != ~GP.payload[w->grp]) h_viol("payload", "notify block saw a half-written record");
	w->active = 0;
	GP.notifies++;
	h_progress();
}
static void *group_thread(void *arg) {
	int th = (int)(intptr_t)arg;
	long skip[2] = { 0, 0 };   // program shrinking: a switched-off enter takes its leave with it
	for (int i = 0; i < GP.nops[th]; i++) {
		gop *op = &GP.ops[th][i];
		int grp = op->grp;
		if (op->kind == G_ENTER && !op_on(op->idx)) { skip[grp]++; continue; }
		if (op->kind == G_LEAVE) { if (skip[grp] > 0) { skip[grp]--; continue; } }
		else if (!op_on(op->idx)) continue;
		switch (op->kind) {
		case G_ENTER: h_log("t%d enter g%d", th, grp); g_enter(grp); break;
		case G_LEAVE: h_log("t%d leave g%d", th, grp); g_leave(grp); break;
		case G_ENTER_HANDOFF: {
			gitem *it = malloc(sizeof *it); it->grp = grp; it->handoff = 1; it->body = (int)(op->arg & 1); it->nest = 0; it->q = op->q;
			h_log("t%d enter g%d, leave handed to an item", th, grp);
			g_enter(grp); GP.pending_async++;
			dispatch_async_f(GP.q[op->q], it, g_item_fn);
			break; }
		case G_ASYNC: {
			gitem *it = malloc(sizeof *it); it->grp = grp; it->handoff = 0; it->body = (int)(op->arg & 1); it->q = op->q;
			it->nest = ((op->arg >> 3) & 7) == 1 ? 1 : ((op->arg >> 3) & 7) == 2 ? 2 : 0;   // a quarter of the items submit further group work themselves
			h_log("t%d group_async g%d", th, grp);
			GP.pending_async++;
			if (op->arg & 4) dispatch_group_async(GP.g[grp], GP.q[op->q], ^{ g_item_fn(it); }); else dispatch_group_async_f(GP.g[grp], GP.q[op->q], it, g_item_fn);
			GP.L[grp]++; GP.enters[grp]++;   // implied enter has certainly happened once the call returned
			// (the item may already have finished: then its decrement came first and L is back where it was)
			break; }
		case G_NOTIFY: {
			int w = g_watch_begin(grp, G_NOTIFY);
			h_log("t%d notify g%d -> block %d", th, grp, w);
			if (op->arg & 4) { void *wp = &GP.w[w]; dispatch_group_notify(GP.g[grp], GP.q[op->q], ^{ g_notify_fn(wp); }); } else dispatch_group_notify_f(GP.g[grp], GP.q[op->q], &GP.w[w], g_notify_fn);
			break; }
		case G_WAIT_FOREVER: case G_WAIT_TIMED: case G_WAIT_NOW: {
			dispatch_time_t t = op->kind == G_WAIT_FOREVER ? DISPATCH_TIME_FOREVER : op->kind == G_WAIT_NOW ? DISPATCH_TIME_NOW : dispatch_time(DISPATCH_TIME_NOW, (int64_t)op->arg);
			int w = g_watch_begin(grp, op->kind);
			h_log("t%d call %s g%d", th, gnames[op->kind], grp);
			long r = dispatch_group_wait(GP.g[grp], t);
			GP.w[w].active = 0;
			h_log("t%d %s g%d -> %ld (minL %ld)", th, gnames[op->kind], grp, r, GP.w[w].minL);
			if (r == 0) {
				GP.waits_zero++;
				if (GP.w[w].minL > 0)
					h_viol("wait-early", "dispatch_group_wait returned 0 although enters returned - leaves called stayed >= %ld during the whole call", GP.w[w].minL);
				if (GP.payload_ck[grp] != ~GP.payload[grp]) h_viol("payload", "waiter saw a half-written record");
			} else {
				GP.waits_timeout++;
				if (op->kind == G_WAIT_FOREVER) h_viol("forever-timeout", "dispatch_group_wait(FOREVER) returned non-zero");
				if (op->kind == G_WAIT_TIMED && sim_clock_hw(CLOCK_MONOTONIC) < (uint64_t)t)
					h_viol("early-timeout", "dispatch_group_wait returned non-zero %lu ns before its deadline", (unsigned long)((uint64_t)t - sim_clock_hw(CLOCK_MONOTONIC)));
			}
			break; }
		case G_PAUSE: sim_sleep_ns(op->arg); break;
		}
		sim_point();
	}
	GP.done++;
	h_progress();
	return NULL;
}
static bool group_all_done(void *c) {
	(void)c;
	if (GP.done < GP.nth || GP.pending_async) return false;
	for (int i = 0; i < GP.nw; i++) if (GP.w[i].kind == G_NOTIFY && !GP.w[i].count) return false;
	return true;
}
static void c07_run(void) {
	memset(&GP, 0, sizeof GP);
	GP.ng = g_chance(1, 3) ? 2 : 1;
	GP.nth = g_range(2, (RC.cfg & CFG_THOROUGH) ? 6 : 5);
	static const uint64_t touts[] = { 1000, 20000, 100000, 500000, 2000000 };
	int idx = 0;
	for (int t = 0; t < GP.nth; t++) {
		int n = 0, want = g_range(3, 9);
		long own[2] = { 0, 0 };   // this thread's outstanding explicit enters
		for (int i = 0; i < want && n < MAXOPS - 4; i++) {
			gop *op = &GP.ops[t][n]; op->idx = idx++; op->grp = (int)g_n((uint32_t)GP.ng); op->q = (int)g_n(3);
			op->arg = g_rnd();
			uint32_t r = g_n(100);
			if (r < 18) { op->kind = G_ENTER; own[op->grp]++; }
			else if (r < 34) { if (own[op->grp] > 0) { op->kind = G_LEAVE; own[op->grp]--; } else { op->kind = G_ENTER_HANDOFF; } }
			else if (r < 48) op->kind = G_ASYNC;
			else if (r < 58) op->kind = G_ENTER_HANDOFF;
			else if (r < 72) op->kind = G_NOTIFY;
			else if (r < 80) { op->kind = (own[0] == 0 && own[1] == 0) ? G_WAIT_FOREVER : G_WAIT_NOW; }
			else if (r < 90) { op->kind = G_WAIT_TIMED; op->arg = touts[g_n(5)]; }
			else if (r < 94) op->kind = G_WAIT_NOW;
			else { op->kind = G_PAUSE; op->arg = (uint64_t)g_range(1, 300) * USEC; }
			n++;
		}
		// balance: leave everything this thread still holds (never switched off: idx -1)
		for (int g2 = 0; g2 < 2; g2++) while (own[g2] > 0 && n < MAXOPS) { gop *op = &GP.ops[t][n++]; op->idx = -1; op->kind = G_LEAVE; op->grp = g2; own[g2]--; }
		GP.nops[t] = n;
	}
	h_sample("groups %d\n", GP.ng);
	for (int t = 0; t < GP.nth; t++) {
		h_sample("thread %d:", t);
		for (int i = 0; i < GP.nops[t]; i++) if (op_on(GP.ops[t][i].idx)) {
			gop *op = &GP.ops[t][i];
			h_sample(" #%d %s(g%d", op->idx, gnames[op->kind], op->grp);
			if (op->kind == G_WAIT_TIMED) h_sample(",%luus", (unsigned long)(op->arg / 1000));
			if (op->kind == G_ASYNC || op->kind == G_NOTIFY || op->kind == G_ENTER_HANDOFF) h_sample(",q%d", op->q);
			h_sample(")");
		}
		h_sample("\n");
	}
	h_announce();
	for (int i = 0; i < GP.ng; i++) { GP.g[i] = dispatch_group_create(); sim_watch(GP.g[i], 96); GP.payload_ck[i] = ~GP.payload[i]; }
	GP.q[0] = dispatch_get_global_queue(0, 0);
	GP.q[1] = dispatch_queue_create("gq-serial", NULL);
	GP.q[2] = dispatch_queue_create("gq-conc", DISPATCH_QUEUE_CONCURRENT);
	sim_thread *th[MAXTH];
	for (int t = 0; t < GP.nth; t++) th[t] = sim_spawn(group_thread, (void *)(intptr_t)t, "group-client");
	h_end_fault_phase(th, GP.nth, 10 * NSEC);
	if (h_wait_until(group_all_done, NULL, LIVENESS_NS)) {
		char b[300]; size_t o = 0; int nn = 0;
		for (int i = 0; i < GP.nw; i++) if (GP.w[i].kind == G_NOTIFY && !GP.w[i].count) nn++;
		o += (size_t)snprintf(b + o, sizeof b - o, "%d of %d clients finished, %d notify block(s) undelivered, %d async item(s) pending; ", GP.done, GP.nth, nn, GP.pending_async);
		for (int g2 = 0; g2 < GP.ng; g2++) o += (size_t)snprintf(b + o, sizeof b - o, "g%d: enters %ld leaves %ld; ", g2, GP.enters[g2], GP.leaves[g2]);
		h_stuck("left-behind", b);
	}
	h_settle(20 * MSEC);
	for (int i = 0; i < GP.nw; i++) if (GP.w[i].kind == G_NOTIFY && GP.w[i].count != 1) h_viol("notify-count", "notify block %d ran %d times", i, GP.w[i].count);
	// the group is reusable: one more generation from the harness
	for (int g2 = 0; g2 < GP.ng; g2++) {
		if (GP.L[g2] != 0) h_viol("harness", "unbalanced program: L=%ld", GP.L[g2]);
		// the implied leave of a dispatch_group_async item happens after its body, out of the harness's
		// sight: give it the liveness bound to complete before judging emptiness
		if (dispatch_group_wait(GP.g[g2], dispatch_time(DISPATCH_TIME_NOW, (int64_t)LIVENESS_NS)) != 0)
			h_viol("left-behind", "group %d did not become empty within 60 simulated seconds after all of its work had finished", g2);
		g_enter(g2);
		if (dispatch_group_wait(GP.g[g2], DISPATCH_TIME_NOW) == 0) h_viol("wait-early", "dispatch_group_wait(NOW) returned 0 on a re-used group with one outstanding enter");
		g_leave(g2);
		if (dispatch_group_wait(GP.g[g2], DISPATCH_TIME_NOW) != 0) h_viol("left-behind", "re-used group does not report empty after its enter was matched");
	}
	RES.counters[0] = GP.waits_zero; RES.counters[1] = GP.waits_timeout; RES.counters[2] = GP.notifies; RES.counters[3] = GP.generations;
	RES.nontrivial = (GP.waits_zero + GP.notifies) > 0 && GP.generations >= 1 && (sim_st.watched_preempts > 0 || sim_st.fired[K_STALL] > 0);
}
static const char *const c07_names[] = { "waits_returned_zero", "waits_timed_out", "notify_blocks_run", "empty_generations", NULL };
const prop_def prop_C07 = { "C07", no_walljump, c07_run, c07_names,
	"non-trivial: a wait returned zero or a notify block ran, the group passed through empty at least once, and a pre-emption/stall was taken inside the group's atomics; distinct = distinct schedule signatures among those" };

/* =========================================================== C09: once */
static struct {
	dispatch_once_t pred[3]; int np;
	int count[3]; uint64_t init_end[3]; int in_init[3];
	int nth, done, slow_calls;
	int body[3];
	uint64_t payload[3], ck[3];
} ON;
static void once_init(void *ctx) {
	int p = (int)(intptr_t)ctx;
	ON.count[p]++; ON.in_init[p] = 1;
	h_log("initialiser %d starts (run %d)", p, ON.count[p]);
	if (ON.count[p] > 1) h_viol("once-twice", "initialiser of predicate %d ran %d times", p, ON.count[p]);
	ON.payload[p] = 0x1234567 + (uint64_t)p;
	if (ON.body[p] == 1) { sim_point(); sim_point(); }
	else if (ON.body[p] == 2) sim_sleep_ns(150 * USEC);
	ON.ck[p] = ~ON.payload[p];
	ON.in_init[p] = 0;
	ON.init_end[p] = h_stamp();
	h_log("initialiser %d ends", p);
}
static void *once_thread(void *arg) {
	int th = (int)(intptr_t)arg;
	int n = 2 + (int)((RC.seed >> (th * 3)) % 3);
	for (int i = 0; i < n; i++) {
		int p = (int)((RC.seed >> (th * 5 + i * 2)) % (uint64_t)ON.np);
		h_log("t%d call once %d", th, p);
		if ((th + i) & 1) dispatch_once_f(&ON.pred[p], (void *)(intptr_t)p, once_init);
		else dispatch_once(&ON.pred[p], ^{ once_init((void *)(intptr_t)p); });
		uint64_t ret = h_stamp();
		h_log("t%d ret once %d", th, p);
		if (ON.count[p] != 1 || ON.in_init[p] || !ON.init_end[p] || ON.init_end[p] > ret)
			h_viol("once-early-return", "dispatch_once on predicate %d returned %s", p, ON.count[p] == 0 ? "before the initialiser ran" : "while the initialiser was still running");
		if (ON.ck[p] != ~ON.payload[p]) h_viol("payload", "caller saw a half-initialised record after dispatch_once");
		sim_point();
	}
	ON.done++;
	h_progress();
	return NULL;
}
static bool once_all_done(void *c) { (void)c; return ON.done == ON.nth; }
static void c09_run(void) {
	memset(&ON, 0, sizeof ON);
	ON.np = g_range(1, 3); ON.nth = g_range(2, 8);
	for (int p = 0; p < ON.np; p++) { ON.body[p] = (int)g_n(3); sim_watch(&ON.pred[p], sizeof(dispatch_once_t)); }
	h_sample("once: %d predicates, %d threads, initialiser bodies %d %d %d\n", ON.np, ON.nth, ON.body[0], ON.body[1], ON.body[2]);
	h_announce();
	sim_thread *th[MAXTH];
	for (int t = 0; t < ON.nth; t++) th[t] = sim_spawn(once_thread, (void *)(intptr_t)t, "once-client");
	h_end_fault_phase(th, ON.nth, 10 * NSEC);
	if (h_wait_until(once_all_done, NULL, LIVENESS_NS)) h_stuck("once-stuck", "a dispatch_once caller was not released after the initialiser completed");
	for (int p = 0; p < ON.np; p++) {
		int before = ON.count[p];
		dispatch_once_f(&ON.pred[p], (void *)(intptr_t)p, once_init);
		if ((before == 1 && ON.count[p] != 1) || ON.count[p] > 1) h_viol("once-twice", "a later dispatch_once call ran the initialiser again");
	}
	RES.counters[0] = ON.nth; RES.counters[1] = sim_st.probe[11];
	RES.nontrivial = sim_st.probe[11] > 0 || sim_st.watched_preempts > 0;
}
static const char *const c09_names[] = { "callers", "slow_path_waits", NULL };
const prop_def prop_C09 = { "C09", NULL, c09_run, c09_names,
	"non-trivial: a caller took the slow wait path of the gate or a pre-emption was taken inside the predicate's atomics; distinct = distinct schedule signatures among those" };

/* C05's hand-off edges through groups, semaphores and once: the same workloads, judged for
 * early returns and half-written records ("payload" clauses) */
void prims_run_for_c05(void) {
	switch (g_n(3)) {
	case 0: c07_run(); break;
	case 1: c08_run(); break;
	default: c09_run(); break;
	}
}

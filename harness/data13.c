// C13 (lifetime half; the byte-string algebra rides along as the oracle): dispatch_data objects shared by several
// threads, destructors delivered asynchronously on queues, concurrent create_map of shared composite objects
#include "h.h"

#define NSHARED 10
#define NPRIV 8
#define MAXTH13 4
#define MAXLEAF 24
typedef struct leaf { unsigned char *buf; size_t n; int kind; int qi; int destroyed; int live; uint64_t destroyed_stamp; } leaf;   // kind 0 default(copy) 1 FREE 2 custom
typedef struct slot { dispatch_data_t d; unsigned char *model; size_t n; int used; } slot;
enum { D_CONCAT, D_SUBRANGE, D_MAP, D_COPY_REGION, D_APPLY, D_SIZE, D_RELEASE, D_RETAIN_RELEASE, D_CREATE, D_N };
static const char *const dn[D_N] = { "concat", "subrange", "map", "copy_region", "apply", "size", "release", "retain+release", "create" };
typedef struct dop { int idx, kind, a, b, dst; size_t off, len; int off_sp, len_sp; } dop;   // *_sp: boundary values relative to the object's size, see D_SUBRANGE
static struct {
	slot shared[NSHARED]; int nshared;
	slot priv[MAXTH13][NPRIV];
	leaf leaves[MAXLEAF]; int nleaves;
	dispatch_queue_t q[3]; char key;
	dop ops[MAXTH13][28]; int nops[MAXTH13]; int nth, done;
	int observations, maps, destructors_run;
} DT;

static unsigned char dbyte(int leafid, size_t k) { return (unsigned char)(leafid * 37 + k * 13 + (k >> 7)); }

static dispatch_data_t make_leaf(size_t n, int kind, int qi, unsigned char **model_out) {
	if (DT.nleaves >= MAXLEAF) kind = 0;
	int id = DT.nleaves < MAXLEAF ? DT.nleaves++ : MAXLEAF - 1;
	leaf *lf = &DT.leaves[id];
	unsigned char *buf = malloc(n ? n : 1), *model = malloc(n ? n : 1);
	for (size_t k = 0; k < n; k++) buf[k] = model[k] = dbyte(id, k);
	*model_out = model;
	lf->buf = buf; lf->n = n; lf->kind = kind; lf->qi = qi; lf->live = 1;
	dispatch_data_t d;
	if (kind == 0) { d = dispatch_data_create(buf, n, NULL, DISPATCH_DATA_DESTRUCTOR_DEFAULT); free(buf); lf->buf = NULL; lf->destroyed = 1; }
	else if (kind == 1) d = dispatch_data_create(buf, n, NULL, DISPATCH_DATA_DESTRUCTOR_FREE);
	else d = dispatch_data_create(buf, n, DT.q[qi], ^{
		lf->destroyed++; lf->destroyed_stamp = h_stamp(); DT.destructors_run++;
		h_log("destructor of leaf %d runs", id);
		if (lf->destroyed > 1) h_viol("destructor-twice", "the destructor of a data buffer ran %d times", lf->destroyed);
		if (qi != 0 && dispatch_get_specific(&DT.key) != (void *)(uintptr_t)(qi + 1)) h_viol("destructor-queue", "the destructor of a data buffer did not run on the queue it was created with");
		memset(lf->buf, 0xDD, lf->n);   // anything still reading this buffer will now disagree with its model
		free(lf->buf);
		h_progress();
	});
	if (!d) h_viol("create", "dispatch_data_create returned NULL");
	return d;
}
static void observe(slot *s, const char *what) {
	DT.observations++;
	size_t sz = dispatch_data_get_size(s->d);
	if (sz != s->n) h_viol("wrong-size", "%s: dispatch_data_get_size = %zu, the object denotes %zu bytes", what, sz, s->n);
}
static void check_bytes(const unsigned char *got, const unsigned char *model, size_t n, const char *what) {
	for (size_t k = 0; k < n; k++) if (got[k] != model[k]) h_viol("wrong-bytes", "%s: byte %zu is 0x%02x, the object denotes 0x%02x", what, k, got[k], model[k]);
}
static slot *src_slot(int th, int a) { return a < DT.nshared ? &DT.shared[a] : &DT.priv[th][(a - DT.nshared) % NPRIV]; }

static void *data_thread(void *arg) {
	int th = (int)(intptr_t)arg;
	for (int i = 0; i < DT.nops[th]; i++) {
		dop *op = &DT.ops[th][i];
		if (!op_on(op->idx)) continue;
		slot *a = src_slot(th, op->a), *b = src_slot(th, op->b), *dst = &DT.priv[th][op->dst % NPRIV];
		if (!a->used) a = &DT.shared[op->a % DT.nshared];
		if (!b->used) b = &DT.shared[op->b % DT.nshared];
		h_log("t%d %s", th, dn[op->kind]);
		switch (op->kind) {
		case D_CREATE: case D_CONCAT: case D_SUBRANGE: case D_MAP:
			if (dst->used) { dispatch_release(dst->d); free(dst->model); dst->used = 0; }
			if (dst == a || dst == b) break;
			if (op->kind == D_CREATE) { dst->d = make_leaf(op->len, (int)(op->off % 3), (int)(op->off % 3), &dst->model); dst->n = op->len; }
			else if (op->kind == D_CONCAT) {
				dst->d = dispatch_data_create_concat(a->d, b->d); dst->n = a->n + b->n;
				dst->model = malloc(dst->n ? dst->n : 1); memcpy(dst->model, a->model, a->n); memcpy(dst->model + a->n, b->model, b->n);
			} else if (op->kind == D_SUBRANGE) {
				size_t off = op->off, len = op->len;   // may be out of range: clamped
				// boundary values, including those where offset + length wraps around
				switch (op->off_sp) { case 1: off = a->n; break; case 2: off = a->n ? a->n - 1 : 0; break; case 3: off = SIZE_MAX; break; case 4: off = 0; break; case 5: off = a->n + 1; break; }
				switch (op->len_sp) { case 1: len = SIZE_MAX; break; case 2: len = SIZE_MAX - off; break; case 3: len = SIZE_MAX - off + 1; break; case 4: len = off <= a->n ? a->n - off : 0; break;
					case 5: len = off <= a->n ? a->n - off + 1 : 1; break; case 6: len = (SIZE_MAX >> 1) + 1; break; case 7: len = SIZE_MAX - (off >> 1); break; }
				dst->d = dispatch_data_create_subrange(a->d, off, len);
				size_t eo = off >= a->n ? a->n : off, el = (off >= a->n) ? 0 : (len > a->n - off ? a->n - off : len);
				dst->n = el; dst->model = malloc(el ? el : 1); memcpy(dst->model, a->model + eo, el);
			} else {
				const void *p = NULL; size_t sz = 0;
				dst->d = dispatch_data_create_map(a->d, &p, &sz);
				DT.maps++;
				if (sz != a->n) h_viol("wrong-size", "dispatch_data_create_map reports %zu bytes, the object denotes %zu", sz, a->n);
				if (sz) check_bytes(p, a->model, sz, "dispatch_data_create_map buffer");
				dst->n = a->n; dst->model = malloc(dst->n ? dst->n : 1); memcpy(dst->model, a->model, a->n);
			}
			if (!dst->d) h_viol("create", "%s returned NULL", dn[op->kind]);
			dst->used = 1;
			observe(dst, dn[op->kind]);
			break;
		case D_COPY_REGION: {
			size_t loc = a->n ? op->off % (a->n + 3) : op->off % 3, off = 12345;
			if (op->off_sp == 3) loc = SIZE_MAX; else if (op->off_sp == 5) loc = (SIZE_MAX >> 1) + 1;
			dispatch_data_t r = dispatch_data_copy_region(a->d, loc, &off);
			DT.observations++;
			if (!r) h_viol("copy-region", "dispatch_data_copy_region returned NULL");
			size_t rs = dispatch_data_get_size(r);
			if (loc >= a->n) { if (rs != 0 || off != a->n) h_viol("copy-region", "location %zu beyond the end (%zu): region size %zu offset %zu", loc, a->n, rs, off); }
			else {
				if (!(off <= loc && loc < off + rs) || off + rs > a->n) h_viol("copy-region", "region [%zu,+%zu) does not contain location %zu of a %zu-byte object", off, rs, loc, a->n);
				const void *p; size_t sz; dispatch_data_t m = dispatch_data_create_map(r, &p, &sz);
				if (sz != rs) h_viol("copy-region", "map of region has size %zu, region %zu", sz, rs);
				check_bytes(p, a->model + off, sz, "dispatch_data_copy_region contents");
				dispatch_release(m);
			}
			dispatch_release(r);
			break; }
		case D_APPLY: {
			__block size_t expect = 0; __block int bad = 0;
			const unsigned char *model = a->model; size_t total = a->n;
			dispatch_data_apply(a->d, ^bool(dispatch_data_t region, size_t offset, const void *buffer, size_t size) {
				(void)region;
				if (offset != expect || offset + size > total) { bad = 1; return false; }
				for (size_t k = 0; k < size; k++) if (((const unsigned char *)buffer)[k] != model[offset + k]) { bad = 2; return false; }
				expect += size; return true;
			});
			DT.observations++;
			if (bad == 1) h_viol("apply-tiling", "dispatch_data_apply regions do not tile the object consecutively");
			if (bad == 2) h_viol("wrong-bytes", "dispatch_data_apply presented bytes that differ from the object's contents");
			if (expect != total) h_viol("apply-tiling", "dispatch_data_apply covered %zu of %zu bytes", expect, total);
			break; }
		case D_SIZE: observe(a, "get_size"); break;
		case D_RETAIN_RELEASE: dispatch_retain(a->d); sim_point(); dispatch_release(a->d); break;
		case D_RELEASE: if (dst->used) { dispatch_release(dst->d); free(dst->model); dst->used = 0; } break;
		}
		sim_point();
	}
	for (int k = 0; k < NPRIV; k++) if (DT.priv[th][k].used) { dispatch_release(DT.priv[th][k].d); DT.priv[th][k].used = 0; }
	DT.done++; h_progress();
	return NULL;
}
static bool data_done(void *c) { (void)c; return DT.done == DT.nth; }
static bool all_destroyed(void *c) { (void)c; for (int i = 0; i < DT.nleaves; i++) if (!DT.leaves[i].destroyed && DT.leaves[i].kind == 2) return false; return true; }

static void c13_run(void) {
	memset(&DT, 0, sizeof DT);
	DT.nth = g_range(2, MAXTH13);
	DT.q[0] = dispatch_get_global_queue(0, 0);
	DT.q[1] = dispatch_queue_create("d-serial", NULL); dispatch_queue_set_specific(DT.q[1], &DT.key, (void *)2, NULL);
	DT.q[2] = dispatch_queue_create("d-conc", DISPATCH_QUEUE_CONCURRENT); dispatch_queue_set_specific(DT.q[2], &DT.key, (void *)3, NULL);
	// shared objects: leaves, then composites over them (fragmented), built by one thread
	int nl = g_range(2, 5);
	DT.nshared = 0;
	for (int i = 0; i < nl; i++) { slot *s = &DT.shared[DT.nshared++]; s->n = g_chance(1, 8) ? 0 : (size_t)g_range(1, 300); s->d = make_leaf(s->n, (int)g_n(3), (int)g_n(3), &s->model); s->used = 1; }
	while (DT.nshared < NSHARED - 2 && g_chance(4, 5)) {
		slot *a = &DT.shared[g_n((uint32_t)DT.nshared)], *b = &DT.shared[g_n((uint32_t)DT.nshared)], *s = &DT.shared[DT.nshared];
		if (g_chance(2, 3)) { s->d = dispatch_data_create_concat(a->d, b->d); s->n = a->n + b->n; s->model = malloc(s->n ? s->n : 1); memcpy(s->model, a->model, a->n); memcpy(s->model + a->n, b->model, b->n); }
		else { size_t off = a->n ? g_n((uint32_t)a->n) : 0, len = a->n - off ? 1 + g_n((uint32_t)(a->n - off)) : 0; s->d = dispatch_data_create_subrange(a->d, off, len); s->n = len; s->model = malloc(len ? len : 1); memcpy(s->model, a->model + off, len); }
		s->used = 1; DT.nshared++;
	}
	int idx = 0;
	for (int t = 0; t < DT.nth; t++) {
		DT.nops[t] = g_range(6, 24);
		for (int i = 0; i < DT.nops[t]; i++) {
			dop *op = &DT.ops[t][i]; op->idx = idx++;
			uint32_t r = g_n(100);
			op->kind = r < 18 ? D_CONCAT : r < 36 ? D_SUBRANGE : r < 52 ? D_MAP : r < 62 ? D_COPY_REGION : r < 72 ? D_APPLY : r < 76 ? D_SIZE : r < 84 ? D_RELEASE : r < 92 ? D_RETAIN_RELEASE : D_CREATE;
			op->a = (int)g_n((uint32_t)(DT.nshared + NPRIV)); op->b = (int)g_n((uint32_t)(DT.nshared + NPRIV)); op->dst = (int)g_n(NPRIV);
			op->off = g_n(700); op->len = g_chance(1, 6) ? (size_t)g_n(100000) : (size_t)g_n(400);
			if (g_chance(1, 4)) op->off_sp = (int)g_n(6);
			if (g_chance(1, 3)) op->len_sp = (int)g_n(8);
			if (op->kind == D_CREATE) op->len = g_n(200);
		}
	}
	h_sample("%d shared data objects (%d leaves), %d threads\n", DT.nshared, nl, DT.nth);
	for (int t = 0; t < DT.nth; t++) {
		h_sample("thread %d:", t);
		for (int i = 0; i < DT.nops[t]; i++) if (op_on(DT.ops[t][i].idx)) { dop *op = &DT.ops[t][i]; h_sample(" #%d %s(%d,%d->p%d,%zu,%zu)", op->idx, dn[op->kind], op->a, op->b, op->dst % NPRIV, op->off, op->len); }
		h_sample("\n");
	}
	h_announce();
	sim_thread *th[MAXTH13];
	for (int t = 0; t < DT.nth; t++) th[t] = sim_spawn(data_thread, (void *)(intptr_t)t, "data-client");
	h_end_fault_phase(th, DT.nth, 5 * NSEC);
	if (h_wait_until(data_done, NULL, LIVENESS_NS)) h_stuck("stuck", "a data client did not finish");
	for (int i = 0; i < DT.nshared; i++) { observe(&DT.shared[i], "final"); dispatch_release(DT.shared[i].d); DT.shared[i].used = 0; }
	// every reference is gone: each custom destructor must now run, exactly once
	if (h_wait_until(all_destroyed, NULL, LIVENESS_NS)) {
		int n = 0; for (int i = 0; i < DT.nleaves; i++) if (!DT.leaves[i].destroyed && DT.leaves[i].kind == 2) n++;
		char b[120]; snprintf(b, sizeof b, "%d buffer destructor(s) never ran although every reference was released", n);
		h_stuck("destructor-missing", b);
	}
	h_settle(20 * MSEC);
	for (int i = 0; i < DT.nleaves; i++) if (DT.leaves[i].kind == 2 && DT.leaves[i].destroyed != 1) h_viol("destructor-twice", "destructor of leaf %d ran %d times", i, DT.leaves[i].destroyed);
	RES.counters[0] = DT.observations; RES.counters[1] = DT.maps; RES.counters[2] = DT.destructors_run;
	RES.nontrivial = DT.observations > 5 && sim_st.switches > 8;
}
static void c13_tune(sim_knobs *k, unsigned cfg, uint64_t *g) { (void)cfg; (void)g; k->alloc_den = 0; }
static const char *const c13_names[] = { "observations_compared_with_model", "create_map_calls", "custom_destructors_run", NULL };
const prop_def prop_C13 = { "C13", c13_tune, c13_run, c13_names,
	"non-trivial: more than 5 observations through the public API were compared with the byte-string model and more than 8 context switches happened; distinct = distinct schedule signatures among those (the algebra itself has no schedule in it: it is the oracle for the lifetime half, see DESIGN.md 3.13)" };

#include "h.h"
extern const prop_def prop_C01, prop_C02, prop_C03, prop_C04, prop_C05, prop_C06, prop_C07, prop_C08, prop_C09, prop_C10, prop_C11, prop_C12, prop_C13, prop_C14, prop_C15, prop_C16, prop_C17, prop_C18, prop_C19;
const prop_def *const all_props[] = { &prop_C01, &prop_C02, &prop_C03, &prop_C04, &prop_C05, &prop_C06, &prop_C07, &prop_C08, &prop_C09, &prop_C10, &prop_C11, &prop_C12, &prop_C13, &prop_C14, &prop_C15, &prop_C16, &prop_C17, &prop_C18, &prop_C19, NULL };

// C16: cancelling a source stops its handler and runs the cancel handler once
#include "h.h"
#include <fcntl.h>
#include <sys/socket.h>
#include <sys/epoll.h>
#include <signal.h>

enum { ST_TIMER, ST_DATA, ST_READ, ST_WRITE, ST_SIGNAL, ST_N };
static const char *const stn[ST_N] = { "timer", "data-add", "read", "write", "signal" };
#define C16_SIGNO SIGUSR1
enum { CM_BEFORE_ACTIVATE, CM_FROM_HANDLER, CM_FROM_TARGET_ITEM, CM_OTHER_THREAD, CM_TWICE, CM_AND_WAIT, CM_FROM_REGISTRATION, CM_N };
static const char *const cmn[CM_N] = { "cancel before activation", "cancel from its own handler", "cancel from an item on its serial target queue",
	"cancel from another thread", "cancel twice from other threads", "dispatch_source_cancel_and_wait from another thread",
	"cancel from its own registration handler (events already pending)" };

static struct {
	int stype, cmode, tqkind, use_socket, peer_closes, cancel_after, sibling, susp_cancel;
	dispatch_source_t ds, sib;
	dispatch_queue_t tq;
	int fds[2];          // [0] monitored end, [1] peer end
	int mon_fd;
	// history
	uint64_t cancel_call, cancel_ret, ch_start, caw_ret;
	int handler_running, handler_starts, starts_after_cancel_call, starts_after_cancel_ret, starts_after_ch;
	int ch_count, ch_on_queue, ch_saw_registration, ch_while_handler;
	uint64_t last_handler_end;
	int fd_closed;
	int sib_events, caw_late_starts, caw_returned_while_running, raised;
	int caw_precancel;   // cancel_and_wait mode: the source is cancelled first and never activated explicitly (cancel_and_wait has to activate it)
	int ch_form;   // how the cancellation handler is set: block / function, plain / mandatory
	int done, nthreads, caw_second;   // caw_second: a second thread races the cancel_and_wait with 1 a plain cancel, 2 another cancel_and_wait
	int activated;
	sim_event handler_seen;
	char key;
} C;

static void do_cancel(const char *who) {
	uint64_t call = h_stamp();
	if (!C.cancel_call) C.cancel_call = call;
	h_log("%s: cancel", who);
	dispatch_source_cancel(C.ds);
	uint64_t ret = h_stamp();
	if (!C.cancel_ret) C.cancel_ret = ret;
	if (!dispatch_source_testcancel(C.ds)) h_viol("testcancel", "dispatch_source_testcancel returned 0 after dispatch_source_cancel returned");
}
static void event_handler(void *ctx) {
	(void)ctx;
	uint64_t st = h_stamp();
	C.handler_running++; C.handler_starts++;
	unsigned long n = dispatch_source_get_data(C.ds);
	h_log("event handler #%d data=%lu", C.handler_starts, n);
	if (C.handler_running > 1) h_viol("handler-reentered", "event handler of the %s source running twice at once", stn[C.stype]);
	if (C.ch_count) { C.starts_after_ch++; h_viol("handler-after-cancel-handler", "the event handler started after the cancellation handler had run"); }
	if (C.cancel_call && st > C.cancel_call) C.starts_after_cancel_call++;
	if (C.cancel_ret && st > C.cancel_ret) C.starts_after_cancel_ret++;
	if ((C.cmode == CM_FROM_HANDLER || C.cmode == CM_FROM_TARGET_ITEM || C.cmode == CM_BEFORE_ACTIVATE || C.cmode == CM_FROM_REGISTRATION) && C.cancel_call && st > C.cancel_call)
		h_viol("handler-after-cancel", "the event handler was invoked again after dispatch_source_cancel had been called (%s)", cmn[C.cmode]);
	// dispatch_source_cancel_and_wait is a cancel "from elsewhere" as far as the property goes: when the source has
	// already been unregistered (peer hang-up) it returns at once and the committed invocation may still start
	if ((C.cmode == CM_OTHER_THREAD || C.cmode == CM_TWICE || C.cmode == CM_AND_WAIT) && C.starts_after_cancel_ret > 1)
		h_viol("handler-after-cancel", "%d event handler invocations started after dispatch_source_cancel had returned (at most the one already committed may)", C.starts_after_cancel_ret);
	if (C.cmode == CM_AND_WAIT && C.caw_ret) C.caw_late_starts++;
	if (C.fd_closed && C.ch_count && (C.stype == ST_READ || C.stype == ST_WRITE)) h_viol("handler-after-close", "event handler ran after the cancellation handler had closed the descriptor");
	if (C.stype == ST_SIGNAL && (n == 0 || n > (unsigned long)C.raised)) h_viol("signal-count", "signal source handler reports %lu deliveries, %d signals were raised", n, C.raised);
	if (C.stype == ST_READ) {
		char buf[256]; size_t want = n < sizeof buf ? (n ? n : 1) : sizeof buf;
		ssize_t r = read(C.mon_fd, buf, want); (void)r;
	} else if (C.stype == ST_WRITE) {
		char buf[64]; memset(buf, 'w', sizeof buf);
		ssize_t r = write(C.mon_fd, buf, sizeof buf); (void)r;
	}
	sim_event_signal(&C.handler_seen);
	if (C.cmode == CM_FROM_HANDLER && !C.cancel_call && C.handler_starts >= C.cancel_after) do_cancel("handler");
	sim_point();
	C.last_handler_end = h_stamp();
	C.handler_running--;
	h_progress();
}
static void cancel_handler(void *ctx) {
	(void)ctx;
	C.ch_start = h_stamp(); C.ch_count++;
	h_log("cancel handler runs (%d)", C.ch_count);
	if (C.ch_count > 1) h_viol("cancel-handler-twice", "the cancellation handler ran %d times", C.ch_count);
	if (!C.cancel_call) h_viol("cancel-handler-early", "the cancellation handler ran although dispatch_source_cancel was never called");
	if (C.handler_running) h_viol("cancel-handler-early", "the cancellation handler ran while the event handler was still running");
	if (C.tqkind != 2 && dispatch_get_specific(&C.key) != (void *)&C.key) h_viol("cancel-handler-queue", "the cancellation handler did not run on the source's target queue");
	if (C.stype == ST_READ || C.stype == ST_WRITE) {
		uint32_t reg = sim_epoll_registered(C.mon_fd);
		uint32_t dir = C.stype == ST_READ ? EPOLLIN : EPOLLOUT;
		if (reg & dir) h_viol("still-monitored", "the descriptor is still registered for %s with epoll when the cancellation handler starts", C.stype == ST_READ ? "reading" : "writing");
		if (!C.sibling) { h_log("cancel handler closes fd %d", C.mon_fd); close(C.mon_fd); C.fd_closed = 1; }
	}
	if (C.stype == ST_SIGNAL && !C.sibling) {
		int sf = sim_signalfd_of(C16_SIGNO);
		if (sf >= 0 && (sim_epoll_registered(sf) & EPOLLIN)) h_viol("still-monitored", "the signal is still monitored (signalfd registered with epoll) when the cancellation handler starts");
	}
	h_progress();
}
static int sib_suspended;
static void sib_handler(void *ctx) {
	(void)ctx; C.sib_events++;
	char b[32]; if (C.stype == ST_WRITE) { ssize_t r = read(C.mon_fd, b, sizeof b); (void)r; }
	if (C.stype == ST_SIGNAL) return;
	// a level-triggered source whose condition stays true would fire for ever: park it after a few events
	if (C.sib_events >= 3 && !sib_suspended) { dispatch_suspend(C.sib); sib_suspended = 1; }   // flag after the call: the main thread resumes only a suspension that has happened
}
static void target_item_cancel(void *ctx) { (void)ctx; do_cancel("item on target queue"); }
static void registration_handler(void *ctx) {
	(void)ctx;
	h_log("registration handler");
	if (C.handler_running) h_viol("handler-reentered", "registration handler ran while the event handler was running");
	for (int k = (int)(RC.seed >> 33 & 7); k > 0; k--) sim_point();   // lets the manager deliver an event meanwhile
	do_cancel("registration handler");
}

static void *event_source_thread(void *arg) {
	(void)arg;
	// generates events: merges for data sources, bytes for read sources, drains for write sources
	for (int i = 0; i < 14; i++) {
		if (C.stype == ST_DATA) dispatch_source_merge_data(C.ds, 1 + (unsigned long)i);
		else if (C.stype == ST_SIGNAL) { C.raised++; h_log("signal raised (%d)", C.raised); sim_signal_raise(C16_SIGNO); }
		else if (C.stype == ST_READ) {
			if (C.peer_closes && i == C.peer_closes) { h_log("peer closes its end"); close(C.fds[1]); C.fds[1] = -1; break; }
			char buf[40]; memset(buf, 'r', sizeof buf);
			if (C.fds[1] >= 0) { ssize_t r = write(C.fds[1], buf, 1 + (size_t)(i * 3 % 40)); (void)r; }
		} else if (C.stype == ST_WRITE) {
			char buf[512]; if (C.fds[1] >= 0) { ssize_t r = read(C.fds[1], buf, sizeof buf); (void)r; }
			if (C.peer_closes && i == C.peer_closes) { h_log("peer closes its end"); close(C.fds[1]); C.fds[1] = -1; break; }
		}
		sim_sleep_ns((uint64_t)(20 + (RC.seed >> (i * 2) & 63)) * USEC);
	}
	C.done++; h_progress();
	return NULL;
}
static void *canceller_thread(void *arg) {
	int second = (int)(intptr_t)arg;
	if (C.cmode == CM_BEFORE_ACTIVATE) { /* done by main */ }
	else {
		// wait for some handler invocations (or a while), then cancel
		if (C.cancel_after && !second) sim_event_wait(&C.handler_seen, 2 * MSEC);
		sim_sleep_ns((uint64_t)((RC.seed >> 9) % 150) * USEC + (second ? (C.cmode == CM_AND_WAIT ? (RC.seed >> 20) % 40 : 30) * USEC : 0));
		if (C.cmode == CM_FROM_TARGET_ITEM) dispatch_async_f(C.tq, NULL, target_item_cancel);
		else if (C.cmode == CM_OTHER_THREAD || C.cmode == CM_TWICE) {
			// in a fifth of the runs the source is suspended while it is cancelled and resumed afterwards
			if (C.susp_cancel && !second) { h_log("suspend"); dispatch_suspend(C.ds); sim_point(); }
			do_cancel(second ? "second thread" : "other thread");
			if (C.susp_cancel && !second) { sim_point(); h_log("resume"); dispatch_resume(C.ds); }
		}
		else if (C.cmode == CM_AND_WAIT && second && C.caw_second == 1) do_cancel("second thread (plain cancel racing the cancel_and_wait)");
		else if (C.cmode == CM_AND_WAIT) {
			if (!C.cancel_call) C.cancel_call = h_stamp();
			h_log("cancel_and_wait%s", second ? " (second thread)" : "");
			dispatch_source_cancel_and_wait(C.ds);
			{ uint64_t r = h_stamp(); if (!C.cancel_ret) C.cancel_ret = r; if (!C.caw_ret) C.caw_ret = r; }
			h_log("cancel_and_wait returned%s", second ? " (second thread)" : "");
			if (C.handler_running) C.caw_returned_while_running++;   // observation only: the property does not promise the wait
			if (C.stype == ST_READ || C.stype == ST_WRITE) {
				uint32_t reg = sim_epoll_registered(C.mon_fd), dir = C.stype == ST_READ ? EPOLLIN : EPOLLOUT;
				// (once the other racing cancel_and_wait has returned and closed the descriptor, its number may belong to somebody else)
				if (!C.fd_closed && (reg & dir)) h_viol("still-monitored", "the descriptor is still registered with epoll after dispatch_source_cancel_and_wait returned");
				if (!C.sibling && !C.fd_closed) { close(C.mon_fd); C.fd_closed = 1; }
			}
			if (!dispatch_source_testcancel(C.ds)) h_viol("testcancel", "testcancel is 0 after cancel_and_wait");
		}
	}
	C.done++; h_progress();
	return NULL;
}
static bool cancel_done(void *c) {
	(void)c;
	if (C.done < C.nthreads) return false;
	if (!C.cancel_call) return false;
	if (C.cmode != CM_AND_WAIT && !C.ch_count) return false;
	return !C.handler_running;
}
extern void dispatch_source_set_mandatory_cancel_handler(dispatch_source_t source, dispatch_block_t handler);
extern void dispatch_source_set_mandatory_cancel_handler_f(dispatch_source_t source, dispatch_function_t handler);
static void set_cancel_handler_form(void) {
	switch (C.ch_form) {
	case 0: dispatch_source_set_cancel_handler(C.ds, ^{ cancel_handler(NULL); }); break;
	case 1: dispatch_source_set_cancel_handler_f(C.ds, cancel_handler); break;
	case 2: dispatch_source_set_mandatory_cancel_handler(C.ds, ^{ cancel_handler(NULL); }); break;
	default: dispatch_source_set_mandatory_cancel_handler_f(C.ds, cancel_handler); break;
	}
}
static void *setter_thread(void *arg) { (void)arg; for (int k = (int)(RC.seed >> 37 & 15); k > 0; k--) sim_point(); set_cancel_handler_form(); return NULL; }
static void c16_run(void) {
	memset(&C, 0, sizeof C);
	C.stype = (int)g_n(ST_N); C.cmode = (int)g_n(CM_N + 1); if (C.cmode >= CM_N) C.cmode = CM_AND_WAIT;   // (cancel_and_wait has the most variants: twice the share)
	C.tqkind = C.cmode == CM_FROM_TARGET_ITEM ? 0 : (int)g_n(3);
	C.use_socket = g_chance(1, 2); C.peer_closes = g_chance(1, 2) ? g_range(1, 10) : 0;
	C.cancel_after = g_range(0, 3);
	C.susp_cancel = g_chance(1, 5);
	C.caw_second = (C.cmode == CM_AND_WAIT && g_chance(1, 2)) ? 1 + (int)g_n(2) : 0;
	C.caw_precancel = C.cmode == CM_AND_WAIT && g_chance(1, 4);
	// (not two cancel_and_wait calls racing on a source nobody has activated: the second one can meet the suspend count
	// that the first one's activation holds for a moment and is refused as "Source is suspended" -- see DESIGN.md 8.3)
	if (C.caw_precancel && C.caw_second == 2) C.caw_second = 1;
	C.sibling = ((C.stype == ST_READ || C.stype == ST_WRITE) && C.use_socket && g_chance(1, 3)) || (C.stype == ST_SIGNAL && g_chance(1, 3));
	h_sample("%s source on a %s queue%s; %s after >= %d handler invocation(s)%s%s%s\n", stn[C.stype], C.tqkind == 0 ? "serial" : C.tqkind == 1 ? "concurrent" : "global",
		(C.stype == ST_READ || C.stype == ST_WRITE) ? (C.use_socket ? " (socketpair)" : " (pipe)") : "", cmn[C.cmode], C.cancel_after, (C.peer_closes && (C.stype == ST_READ || C.stype == ST_WRITE)) ? "; the peer closes its end during the run" : "",
		(C.susp_cancel && (C.cmode == CM_OTHER_THREAD || C.cmode == CM_TWICE)) ? "; suspended while it is cancelled" : "", C.sibling ? (C.stype == ST_SIGNAL ? "; a second source monitors the same signal" : "; a second source monitors the other direction of the same descriptor") : "");
	if (C.caw_precancel) h_sample("the source is cancelled first and never activated explicitly\n");
	if (C.caw_second) h_sample("a second thread races it with %s\n", C.caw_second == 1 ? "dispatch_source_cancel" : "another dispatch_source_cancel_and_wait");
	h_announce();
	C.tq = C.tqkind == 0 ? dispatch_queue_create("c16-serial", NULL) : C.tqkind == 1 ? dispatch_queue_create("c16-conc", DISPATCH_QUEUE_CONCURRENT) : dispatch_get_global_queue(0, 0);
	if (C.tqkind != 2) dispatch_queue_set_specific(C.tq, &C.key, &C.key, NULL);
	C.fds[0] = C.fds[1] = -1;
	if (C.stype == ST_READ || C.stype == ST_WRITE) {
		if (C.use_socket) { if (socketpair(AF_UNIX, SOCK_STREAM | SOCK_NONBLOCK, 0, C.fds)) h_viol("harness", "socketpair"); }
		else { if (pipe2(C.fds, O_NONBLOCK)) h_viol("harness", "pipe"); if (C.stype == ST_WRITE) { int t = C.fds[0]; C.fds[0] = C.fds[1]; C.fds[1] = t; } }
		C.mon_fd = C.fds[0];
	}
	switch (C.stype) {
	case ST_TIMER: C.ds = dispatch_source_create(DISPATCH_SOURCE_TYPE_TIMER, 0, 0, C.tq); dispatch_source_set_timer(C.ds, dispatch_time(DISPATCH_TIME_NOW, 20000), 40000 + g_n(100000), 0); break;
	case ST_DATA: C.ds = dispatch_source_create(DISPATCH_SOURCE_TYPE_DATA_ADD, 0, 0, C.tq); break;
	case ST_READ: C.ds = dispatch_source_create(DISPATCH_SOURCE_TYPE_READ, (uintptr_t)C.mon_fd, 0, C.tq); break;
	case ST_SIGNAL: C.ds = dispatch_source_create(DISPATCH_SOURCE_TYPE_SIGNAL, C16_SIGNO, 0, C.tq); break;
	default: C.ds = dispatch_source_create(DISPATCH_SOURCE_TYPE_WRITE, (uintptr_t)C.mon_fd, 0, C.tq); break;
	}
	if (!C.ds) h_viol("create", "dispatch_source_create failed");
	sim_watch(C.ds, 120); sim_watch(*(void **)((char *)C.ds + 88), 96);
	if (g_chance(1, 2)) dispatch_source_set_event_handler(C.ds, ^{ event_handler(NULL); }); else dispatch_source_set_event_handler_f(C.ds, event_handler);
	// the cancellation handler: plain or "mandatory" form (private header: the same handler, plus a check at dispose time);
	// before a cancel-before-activation it is sometimes set by another thread while the cancel is under way
	int late_setter = C.cmode == CM_BEFORE_ACTIVATE && g_chance(1, 2);
	C.ch_form = (int)g_n(4);
	if (C.cmode != CM_AND_WAIT && !late_setter) set_cancel_handler_form();
	if (C.sibling) {
		if (C.stype == ST_SIGNAL) C.sib = dispatch_source_create(DISPATCH_SOURCE_TYPE_SIGNAL, C16_SIGNO, 0, dispatch_get_global_queue(0, 0));
		else C.sib = dispatch_source_create(C.stype == ST_READ ? DISPATCH_SOURCE_TYPE_WRITE : DISPATCH_SOURCE_TYPE_READ, (uintptr_t)C.mon_fd, 0, dispatch_get_global_queue(0, 0));
		dispatch_source_set_event_handler_f(C.sib, sib_handler);
		dispatch_activate(C.sib);
	}
	if (C.cmode == CM_FROM_REGISTRATION) {
		dispatch_source_set_registration_handler_f(C.ds, registration_handler);
		// an event is pending by the time the registration handler returns
		if (C.stype == ST_DATA) dispatch_source_merge_data(C.ds, 3);
		else if (C.stype == ST_READ) { ssize_t r = write(C.fds[1], "pending", 7); (void)r; }
	}
	if (C.cmode == CM_BEFORE_ACTIVATE) {
		sim_thread *st = late_setter ? sim_spawn(setter_thread, NULL, "handler-setter") : NULL;
		for (int k = (int)(RC.seed >> 33 & 15); k > 0; k--) sim_point();
		do_cancel("main (before activation)");
		if (st && sim_join(st, LIVENESS_NS)) h_stuck("liveness", "dispatch_source_set_cancel_handler did not return");
	}
	if (C.caw_precancel) do_cancel("main (before activation; cancel_and_wait follows, nobody activates)");
	else dispatch_activate(C.ds);
	C.activated = 1;
	if (C.tqkind == 2 && C.cmode != CM_AND_WAIT) { /* no marker on a global queue: accept */ }
	sim_thread *th[4]; int n = 0;
	th[n++] = sim_spawn(event_source_thread, NULL, "events");
	if (C.cmode != CM_FROM_HANDLER && C.cmode != CM_FROM_REGISTRATION) th[n++] = sim_spawn(canceller_thread, (void *)0, "canceller");
	if (C.cmode == CM_TWICE || C.caw_second) th[n++] = sim_spawn(canceller_thread, (void *)1, "canceller2");
	C.nthreads = n;
	h_end_fault_phase(th, n, 5 * NSEC);
	if (C.cmode == CM_FROM_HANDLER && !C.cancel_call) {
		// the handler never reached its cancel point (e.g. the peer closed early): cancel from here instead
		C.cmode = CM_OTHER_THREAD; do_cancel("main (fallback)");
	}
	if (h_wait_until(cancel_done, NULL, LIVENESS_NS)) {
		char b[200]; snprintf(b, sizeof b, "%s / %s: cancel %s, cancellation handler ran %d time(s), %d event handler invocation(s), handler running %d", stn[C.stype], cmn[C.cmode],
			C.cancel_call ? "called" : "not called", C.ch_count, C.handler_starts, C.handler_running);
		h_stuck("cancel-handler-missing", b);
	}
	if (C.sibling) { dispatch_source_cancel(C.sib); if (sib_suspended) dispatch_resume(C.sib); }
	h_settle(20 * MSEC);
	if (C.cmode != CM_AND_WAIT && C.ch_count != 1) h_viol("cancel-handler-count", "the cancellation handler ran %d times", C.ch_count);
	if (!dispatch_source_testcancel(C.ds)) h_viol("testcancel", "dispatch_source_testcancel is 0 in the final state");
	if (C.ch_count && C.last_handler_end > C.ch_start) h_viol("cancel-handler-early", "an event handler invocation ended after the cancellation handler had started");
	if (sim_epoll_ctl_ebadf) h_viol("epoll-after-close", "the library issued epoll_ctl on a descriptor that had already been closed (%d time(s))", sim_epoll_ctl_ebadf);
	RES.counters[0] = C.handler_starts; RES.counters[1] = C.starts_after_cancel_ret; RES.counters[2] = C.ch_count; RES.counters[3] = sim_st.probe[14]; RES.counters[4] = sim_st.probe[15];
	RES.counters[C.stype == ST_SIGNAL ? 11 : 5 + C.stype] = 1; RES.counters[12] = sim_st.fired[K_SIGMISS]; RES.counters[9] = C.caw_late_starts; RES.counters[10] = C.caw_returned_while_running;
	RES.nontrivial = C.handler_starts > 0 && (sim_st.watched_preempts > 0 || sim_st.fired[K_STALL] > 0);
}
static void c16_tune(sim_knobs *k, unsigned cfg, uint64_t *g) {
	(void)cfg; (void)g; k->alloc_den = 0; k->thrfail_den = 0; if (!k->tick_ns) k->tick_ns = 20;
	// a hung-up descriptor keeps the level-triggered event loop spinning until the source is unregistered:
	// a long stall of the unregistering thread would only burn scheduling points
	for (int i = 0; i < SIM_MAX_STALLS; i++) if (k->stall_code[i] > 3) k->stall_code[i] = 1 + k->stall_code[i] % 3;
	k->step_cap = 4000000;
}
static const char *const c16_names[] = { "event_handler_invocations", "invocations_started_after_cancel_returned", "cancel_handler_runs", "hangups_merged", "deferred_unregistrations",
	"timer_runs", "data_runs", "read_runs", "write_runs", "handler_starts_after_cancel_and_wait_returned", "cancel_and_wait_returned_while_handler_running", "signal_runs", "signalfd_misfires", NULL };
const prop_def prop_C16 = { "C16", c16_tune, c16_run, c16_names,
	"non-trivial: the event handler ran at least once before the cancellation and a pre-emption/stall was taken inside the source's atomics; distinct = distinct schedule signatures among those" };

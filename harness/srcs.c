// C15: data sources coalesce without loss and never re-enter their handler
#include "h.h"

#define MAXTH 6
enum { M_MERGE, M_SUSPEND_RESUME, M_PAUSE, M_REPLACE_HANDLER };
typedef struct mop { int idx, kind; uint64_t val; int burst, depth; } mop;
static struct {
	dispatch_source_t ds; int type;      // 0 ADD, 1 OR, 2 REPLACE
	dispatch_queue_t tq; int tqkind;     // 0 serial, 1 concurrent, 2 global, 3 serial targeting concurrent
	int nth; mop ops[MAXTH][10]; int nops[MAXTH];
	// history
	uint64_t merged_sum, merged_or, delivered_sum, delivered_or, last_delivered;
	uint64_t mvals[256]; int nm;
	uint64_t last_merge_call, last_merge_ret, last_merge_val; int last_merge_overlapped;
	int merges_in_flight;
	int running, invocations, max_overlap_seen;
	int handler_merges_left;
	int done;
	int body, late_activate;
} D;
static const char *const tnames[] = { "DATA_ADD", "DATA_OR", "DATA_REPLACE" };

static void do_merge(uint64_t v, const char *who) {
	uint64_t call = h_stamp();
	if (D.nm < 256) D.mvals[D.nm++] = v;
	D.merged_sum += v; D.merged_or |= v;
	if (D.merges_in_flight > 0) D.last_merge_overlapped = 1; else D.last_merge_overlapped = 0;
	D.merges_in_flight++;
	D.last_merge_call = call; D.last_merge_val = v;
	h_log("%s merge %lu", who, (unsigned long)v);
	dispatch_source_merge_data(D.ds, v);
	D.merges_in_flight--;
	if (D.last_merge_call != call) { /* a later merge began while this one was in flight */ }
	else D.last_merge_ret = h_stamp();
}
static void handler(void *ctx) {
	(void)ctx;
	D.running++; D.invocations++;
	uint64_t st = h_stamp(); (void)st;
	if (D.running > 1) h_viol("handler-reentered", "the event handler of the %s source is running on %d threads at once", tnames[D.type], D.running);
	uint64_t v = dispatch_source_get_data(D.ds);
	h_log("handler: data %lu", (unsigned long)v);
	if (v == 0) h_viol("zero-data", "handler invoked with dispatch_source_get_data() == 0");
	D.delivered_sum += v; D.delivered_or |= v; D.last_delivered = v;
	if (D.type == 0 && D.delivered_sum > D.merged_sum)
		h_viol("invented-data", "DATA_ADD: delivered total %lu exceeds merged total %lu", (unsigned long)D.delivered_sum, (unsigned long)D.merged_sum);
	if (D.type == 1 && (v & ~D.merged_or))
		h_viol("invented-data", "DATA_OR: delivered mask 0x%lx has bits never merged (0x%lx)", (unsigned long)v, (unsigned long)D.merged_or);
	if (D.type == 2) {
		int found = 0;
		for (int i = 0; i < D.nm; i++) if (D.mvals[i] == v) found = 1;
		if (!found) h_viol("invented-data", "DATA_REPLACE: delivered value %lu was never merged", (unsigned long)v);
	}
	if (D.body == 1) { sim_point(); sim_point(); }
	else if (D.body == 2) sim_sleep_ns(30 * USEC);
	if (D.handler_merges_left > 0) { D.handler_merges_left--; do_merge(D.type == 1 ? 0x100u << (D.handler_merges_left & 7) : 1000 + (uint64_t)D.handler_merges_left, "handler"); }
	sim_point();
	D.running--;
	h_progress();
}
static void *merger(void *arg) {
	int th = (int)(intptr_t)arg;
	for (int i = 0; i < D.nops[th]; i++) {
		mop *op = &D.ops[th][i];
		if (!op_on(op->idx)) continue;
		switch (op->kind) {
		case M_MERGE: do_merge(op->val, "client"); break;
		case M_SUSPEND_RESUME:
			h_log("suspend source x%d", op->depth);
			for (int k = 0; k < op->depth; k++) dispatch_suspend(D.ds);   // nested: a few levels, or past the point where the count spills into the side counter
			for (int k = 0; k < op->burst; k++) { do_merge(op->val + (uint64_t)k * (D.type == 1 ? 0 : 1), "client(suspended)"); sim_point(); }
			h_log("resume source x%d", op->depth);
			for (int k = 0; k < op->depth; k++) { dispatch_resume(D.ds); if ((k & 15) == 15) sim_point(); }
			break;
		case M_PAUSE: sim_sleep_ns(op->val); break;
		case M_REPLACE_HANDLER:
			// the handler may be replaced while events flow (here by one that does the same): nothing is lost or delivered twice
			h_log("replace event handler");
			if (op->burst & 1) dispatch_source_set_event_handler(D.ds, ^{ handler(NULL); }); else dispatch_source_set_event_handler_f(D.ds, handler);
			break;
		}
		sim_point();
	}
	D.done++; h_progress();
	return NULL;
}
static bool data_done(void *c) {
	(void)c;
	if (D.done < D.nth || D.running) return false;
	if (D.type == 0) return D.delivered_sum == D.merged_sum;
	if (D.type == 1) return D.delivered_or == D.merged_or;
	return true;
}
static void c15_run(void) {
	memset(&D, 0, sizeof D);
	D.type = (int)g_n(3); D.tqkind = (int)g_n(4); D.nth = g_range(2, 5); D.body = (int)g_n(3);
	D.handler_merges_left = g_chance(1, 3) ? g_range(1, 3) : 0;
	D.late_activate = g_chance(1, 4);   // the mergers start before the source is activated: nothing may be delivered early, nothing lost
	int idx = 0;
	int small_domain = D.type == 2 && g_chance(1, 3);
	for (int t = 0; t < D.nth; t++) {
		D.nops[t] = g_range(2, 7);
		for (int i = 0; i < D.nops[t]; i++) {
			mop *op = &D.ops[t][i]; op->idx = idx++;
			uint32_t r = g_n(100);
			op->kind = r < 66 ? M_MERGE : r < 80 ? M_SUSPEND_RESUME : r < 88 ? M_REPLACE_HANDLER : M_PAUSE;
			op->val = op->kind == M_PAUSE ? (uint64_t)g_range(1, 200) * USEC : D.type == 1 ? (1ull << g_n(20)) : 1 + g_n(1000);
			// the data is an unsigned long: a quarter of the values use its upper half (sums stay far below 2^64)
			if (small_domain && op->kind != M_PAUSE) op->val = 1 + g_n(3);   // the same few values over and over (a value may come back while another one is still pending)
			else if (op->kind == M_MERGE && g_chance(1, 16)) op->val = 0;   // documented: no effect for ADD / OR; REPLACE stores it and the handler is not called for it
			else if (op->kind != M_PAUSE && g_chance(1, 4)) op->val = D.type == 1 ? (1ull << (20 + g_n(43))) : D.type == 0 ? ((uint64_t)(1 + g_n(1000)) << (20 + g_n(30))) : ((uint64_t)(1 + g_n(1000)) << (20 + g_n(40))) | g_n(1000);
			op->burst = g_range(1, 4);
			op->depth = g_chance(1, 6) ? g_range(60, 70) : g_chance(1, 3) ? g_range(2, 4) : 1;
			if (D.late_activate && op->depth > 4) op->depth = 4;   // (dozens of suspensions of a not yet activated source followed by a set_*_handler call: documented client crash)
			if (op->kind == M_SUSPEND_RESUME && g_chance(1, 3)) op->burst = 0;   // a bare suspend/resume pair: may land inside one invocation of the source
		}
	}
	h_sample("%s source on %s queue, handler body %d, handler merges %d%s\n", tnames[D.type],
		D.tqkind == 0 ? "a serial" : D.tqkind == 1 ? "a concurrent" : D.tqkind == 2 ? "a global" : "a serial->concurrent", D.body, D.handler_merges_left, D.late_activate ? ", activated while the merges are under way" : "");
	for (int t = 0; t < D.nth; t++) {
		h_sample("thread %d:", t);
		for (int i = 0; i < D.nops[t]; i++) if (op_on(D.ops[t][i].idx)) {
			mop *op = &D.ops[t][i];
			if (op->kind == M_MERGE) h_sample(" #%d merge(%lu)", op->idx, (unsigned long)op->val);
			else if (op->kind == M_SUSPEND_RESUME) h_sample(" #%d suspend(x%d)+%d merges+resume", op->idx, op->depth, op->burst);
			else if (op->kind == M_REPLACE_HANDLER) h_sample(" #%d replace-handler", op->idx);
			else h_sample(" #%d pause", op->idx);
		}
		h_sample("\n");
	}
	h_announce();
	switch (D.tqkind) {
	case 0: D.tq = dispatch_queue_create("src-serial", NULL); break;
	case 1: D.tq = dispatch_queue_create("src-conc", DISPATCH_QUEUE_CONCURRENT); break;
	case 2: D.tq = dispatch_get_global_queue(0, 0); break;
	default: D.tq = dispatch_queue_create_with_target("src-serial2", NULL, dispatch_queue_create("src-conc2", DISPATCH_QUEUE_CONCURRENT)); break;
	}
	D.ds = dispatch_source_create(D.type == 0 ? DISPATCH_SOURCE_TYPE_DATA_ADD : D.type == 1 ? DISPATCH_SOURCE_TYPE_DATA_OR : DISPATCH_SOURCE_TYPE_DATA_REPLACE, 0, 0, D.tq);
	if (!D.ds) h_viol("create", "dispatch_source_create failed");
	sim_watch(D.ds, 160);
	if (g_chance(1, 2)) dispatch_source_set_event_handler(D.ds, ^{ handler(NULL); }); else dispatch_source_set_event_handler_f(D.ds, handler);
	if (!D.late_activate) dispatch_activate(D.ds);
	int hm = D.handler_merges_left;
	sim_thread *th[MAXTH];
	for (int t = 0; t < D.nth; t++) th[t] = sim_spawn(merger, (void *)(intptr_t)t, "merger");
	if (D.late_activate) {
		sim_sleep_ns((uint64_t)(RC.seed >> 13 & 127) * USEC);
		if (D.invocations) h_viol("inactive-delivery", "the handler of a source that had not been activated yet was invoked");
		h_log("activate source");
		dispatch_activate(D.ds);
	}
	h_end_fault_phase(th, D.nth, 10 * NSEC);
	if (h_wait_until(data_done, NULL, LIVENESS_NS)) {
		char b[256];
		snprintf(b, sizeof b, "%s: merged sum %lu or 0x%lx, delivered sum %lu or 0x%lx after %d handler invocations; %d of %d mergers finished",
			tnames[D.type], (unsigned long)D.merged_sum, (unsigned long)D.merged_or, (unsigned long)D.delivered_sum, (unsigned long)D.delivered_or, D.invocations, D.done, D.nth);
		h_stuck("lost-merge", b);
	}
	h_settle(20 * MSEC);
	if (D.type == 0 && D.delivered_sum != D.merged_sum) h_viol("sum-mismatch", "DATA_ADD: delivered %lu, merged %lu", (unsigned long)D.delivered_sum, (unsigned long)D.merged_sum);
	if (D.type == 1 && D.delivered_or != D.merged_or) h_viol("sum-mismatch", "DATA_OR: delivered 0x%lx, merged 0x%lx", (unsigned long)D.delivered_or, (unsigned long)D.merged_or);
	if (D.type == 2 && hm == 0 && D.nm > 0 && !D.last_merge_overlapped && D.last_merge_ret && D.last_merge_val != 0) {
		// the merge with the greatest call stamp did not overlap any other merge: it must be the last value delivered
		uint64_t t0 = sim_now();
		while (D.last_delivered != D.last_merge_val && sim_now() - t0 < LIVENESS_NS) sim_sleep_ns(50 * MSEC);
		if (D.last_delivered != D.last_merge_val)
			h_viol("replace-last", "DATA_REPLACE: the final merge (%lu) was not the last value delivered (%lu)", (unsigned long)D.last_merge_val, (unsigned long)D.last_delivered);
	}
	RES.counters[0] = D.invocations; RES.counters[1] = D.nm; RES.counters[2] = D.nm - D.invocations;
	RES.nontrivial = D.invocations >= 1 && D.nm > D.invocations && (sim_st.watched_preempts > 0 || sim_st.fired[K_STALL] > 0);
}
static const char *const c15_names[] = { "handler_invocations", "merges", "merges_coalesced", NULL };
const prop_def prop_C15 = { "C15", NULL, c15_run, c15_names,
	"non-trivial: at least two merges were coalesced into one handler invocation and a pre-emption/stall was taken inside the source's atomics; distinct = distinct schedule signatures among those" };

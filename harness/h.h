// common harness definitions for all property workloads
#pragma once
#define _GNU_SOURCE
#include <stdint.h>
#include <stddef.h>
#include <stdbool.h>
#include <stdio.h>
#include <stdlib.h>
#include <string.h>
#include <stdarg.h>
#include <errno.h>
#include <time.h>
#include <unistd.h>
#include <dispatch/dispatch.h>
#include "../sim/sim.h"

#ifndef QOS_CLASS_DEFAULT   /* the Linux public headers do not define the QoS classes (values from src/shims/priority.h) */
#define QOS_CLASS_USER_INTERACTIVE 0x21
#define QOS_CLASS_USER_INITIATED 0x19
#define QOS_CLASS_DEFAULT 0x15
#define QOS_CLASS_UTILITY 0x11
#define QOS_CLASS_BACKGROUND 0x09
#define QOS_CLASS_MAINTENANCE 0x05
#define QOS_CLASS_UNSPECIFIED 0x00
#endif
#define NSEC 1000000000ull
#define MSEC 1000000ull
#define USEC 1000ull
#define LIVENESS_NS (60 * NSEC)      /* L of DESIGN.md 2.8 */

/* ---- private libdispatch entry points used by workloads ---- */
typedef struct dispatch_workloop_s *dispatch_workloop_t;
extern dispatch_workloop_t dispatch_workloop_create(const char *label);
extern dispatch_workloop_t dispatch_workloop_create_inactive(const char *label);
extern void dispatch_workloop_set_autorelease_frequency(dispatch_workloop_t workloop, dispatch_autorelease_frequency_t frequency);
extern void _dispatch_main_queue_callback_4CF(void *msg);
extern int _dispatch_get_main_queue_handle_4CF(void);
extern void dispatch_async_and_wait(dispatch_queue_t q, dispatch_block_t b);
extern void dispatch_async_and_wait_f(dispatch_queue_t q, void *ctxt, dispatch_function_t f);
extern void dispatch_barrier_async_and_wait(dispatch_queue_t q, dispatch_block_t b);
extern void dispatch_barrier_async_and_wait_f(dispatch_queue_t q, void *ctxt, dispatch_function_t f);
extern void dispatch_queue_set_width(dispatch_queue_t dq, long width);
extern void dispatch_source_cancel_and_wait(dispatch_source_t ds);
extern struct _dispatch_hw_configs_s { uint32_t logical_cpus, physical_cpus, active_cpus; } _dispatch_hw_config;

/* ---- run context ---- */
enum { CFG_FAULTY = 1, CFG_THOROUGH = 2, CFG_ASAN = 4, CFG_FULL = 8 };

#define MAX_OPS 512
typedef struct run_ctx {
	uint64_t seed;            // run seed: decides program, knobs and schedule
	unsigned cfg;
	int verbose;
	int replay;               // running from a replay file
	uint8_t disabled[MAX_OPS];// program shrinking: operations switched off
	int ndisabled;
	uint64_t gen[2];          // generator PRNG state
} run_ctx;
extern run_ctx RC;

/* ---- result record (child -> zygote) ---- */
enum { V_OK = 0, V_VIOLATION = 1, V_EXPECT_CRASH = 2, V_SKIP = 3, V_PENDING = 4 };
#define NCOUNTERS 24
typedef struct result {
	int verdict;
	char clause[64];
	char msg[512];
	uint64_t hist_hash;
	int nontrivial;
	int tape_n;
	int64_t counters[NCOUNTERS];
	sim_stats st;
	char sample[6000];
} result;
extern result RES;

typedef struct prop_def {
	const char *id;
	void (*tune)(sim_knobs *k, unsigned cfg, uint64_t *g);   // optional: adjust knobs
	void (*run)(void);                                       // generate, execute, judge
	const char *const *counter_names;                        // NULL-terminated, <= NCOUNTERS
	const char *nontrivial_rule;
} prop_def;

/* ---- generator PRNG (program shape; independent of the schedule PRNG) ---- */
uint64_t g_rnd(void);
static inline uint32_t g_n(uint32_t n) { return n ? (uint32_t)(g_rnd() % n) : 0; }
static inline int g_range(int lo, int hi) { return lo + (int)g_n((uint32_t)(hi - lo + 1)); }
static inline bool g_chance(int num, int den) { return (int)g_n((uint32_t)den) < num; }
static inline bool op_on(int idx) { return idx < 0 || idx >= MAX_OPS || !RC.disabled[idx]; }

/* ---- history ---- */
extern uint64_t h_seqno;
static inline uint64_t h_stamp(void) { return ++h_seqno; }
void h_log(const char *fmt, ...) __attribute__((format(printf, 1, 2))); // hashed, printed when verbose
void h_mix(uint64_t v);

/* ---- verdicts ---- */
// record a violation and end the run at once (never returns)
void h_viol(const char *clause, const char *fmt, ...) __attribute__((format(printf, 2, 3), noreturn));
// end the run normally (never returns)
void h_done(void) __attribute__((noreturn));
void h_sample(const char *fmt, ...) __attribute__((format(printf, 1, 2)));  // append to the program rendering
// announce that the next action must crash the process (expected-crash run)
void h_expect_crash(const char *what);
// send a preliminary record (program rendering) so that a later crash still has its program
void h_announce(void);

/* ---- phases / liveness ---- */
// wait for the given client threads, at most budget_ns of simulated time; then switch to
// fair, fault-free scheduling. Returns number of clients still not finished.
int h_end_fault_phase(sim_thread **clients, int n, uint64_t budget_ns);
// wait (fair phase) until *flag-returning* predicate holds or L has passed; 0 = ok
int h_wait_until(bool (*pred)(void *), void *ctx, uint64_t limit_ns);
void h_stuck(const char *clause, const char *what) __attribute__((noreturn));
// optional: lets a workload name the clause when the step cap is exhausted in the fair phase
extern const char *(*h_stepcap_clause)(void);
// let stragglers run for a span of simulated time
void h_settle(uint64_t ns);
// signal 'something completed' to a main thread blocked in h_wait_until
void h_progress(void);

void *xzalloc(size_t n);

/* registry */
extern const prop_def *const all_props[];

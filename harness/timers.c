// C11: timers and dispatch_after never fire early and always fire
#include "h.h"
#include <Block.h>

#define MAXTM 48
#define MAXAFTER 24
#define DISPATCH_MONOTONICTIME_NOW_ (1ull << 63)
#define DISPATCH_WALLTIME_NOW_ (~1ull)
static const int clk_ids[3] = { CLOCK_MONOTONIC, CLOCK_BOOTTIME, CLOCK_REALTIME };   // uptime, monotonic, wall
static const char *const clk_names[3] = { "uptime", "monotonic", "wall" };

typedef struct epoch {
	int clock; uint64_t start; uint64_t interval;   // interval 0 = one-shot; start UINT64_MAX = never
	uint64_t leeway;
	uint64_t call, ret;          // stamps of the set_timer call
	int sharp;                   // old_budget: how many more invocations of older settings may still start: 0 (issued before
	                             // activation or from the timer's own handler), 1 (issued while suspended from another thread:
	                             // the one invocation already committed), -1 (concurrent: until one is explained by this setting only)
	uint64_t cum;                // data delivered attributed to this configuration
	int confirmed;               // an invocation could only be explained by this configuration
	int far;
	uint64_t hw_at_call;         // clock reading when set_timer was called (lower bound for NOW starts)
	uint64_t due_up;             // uptime at which the harness first saw the start time reached
	int amb;                     // its set_timer call overlapped another one: the order of effect is unknown
} epoch;
typedef struct tm_rec {
	int id; dispatch_source_t ds; int qi;
	epoch ep[8]; int nep;
	int running, fires, fires_latest, cancelled, cancel_handler_runs;
	int suspended;               // suspends returned - resumes called (by clients)
	uint64_t resume_call;
	int reconf_from_handler;     // pending: reconfigure from the next handler invocation
	uint64_t rc_start_delta, rc_interval; int rc_clock;
	int strict, ready;
} tm_rec;
typedef struct after_rec { int clock; uint64_t when_abs; int count; uint64_t call; int qi; int far; uint64_t due_up; } after_rec;

static struct {
	tm_rec tm[MAXTM]; int ntm;
	after_rec af[MAXAFTER]; int naf;
	dispatch_queue_t q[3];
	int done, nth;
	int max_population;
	uint64_t max_late_ns;
	int zero_data;
} T;

static uint64_t clock_now(int c) { return sim_clock(clk_ids[c]); }
static uint64_t clock_hw(int c) { return sim_clock_hw(clk_ids[c]); }

static dispatch_time_t mk_time(int clock, int64_t delta, uint64_t *abs_out) {
	dispatch_time_t t;
	if (clock == 0) t = dispatch_time(DISPATCH_TIME_NOW, delta);
	else if (clock == 1) t = dispatch_time(DISPATCH_MONOTONICTIME_NOW_, delta);
	else t = dispatch_walltime(NULL, delta);
	uint64_t abs;
	if (clock == 0) abs = (uint64_t)t;
	else if (clock == 1) abs = (uint64_t)t & ~(1ull << 63);
	else abs = (uint64_t)(-(int64_t)t);
	*abs_out = abs;
	return t;
}

static uint64_t boundaries(const epoch *e, uint64_t hw) {
	if (e->start == UINT64_MAX || hw < e->start) return 0;
	if (!e->interval) return 1;
	return 1 + (hw - e->start) / e->interval;
}

static void do_set_timer(tm_rec *t, int clock, int64_t delta, uint64_t interval, uint64_t leeway, int sharp, int forever) {
	if (t->nep >= 8) return;
	epoch *e = &t->ep[t->nep];
	memset(e, 0, sizeof *e);
	e->clock = clock; e->interval = interval; e->leeway = leeway; e->sharp = sharp;   /* 0, 1 or -1, see above */
	e->hw_at_call = clock_hw(clock);
	dispatch_time_t st;
	if (forever) { st = DISPATCH_TIME_FOREVER; e->start = UINT64_MAX; e->clock = t->nep ? t->ep[t->nep - 1].clock : 0; }
	else st = mk_time(clock, delta, &e->start);
	e->far = forever || delta > (int64_t)(30 * NSEC);
	e->call = h_stamp();
	// overlapping set_timer calls: if ANY earlier call has not returned yet, its effect may still land after this
	// one's, so every configuration from that one on is ambiguous in order (the first version only looked at the
	// immediately preceding call: a false alarm of the first thorough soak)
	for (int j = 0; j < t->nep; j++) if (!t->ep[j].ret) { for (int k = j; k < t->nep; k++) t->ep[k].amb = 1; e->amb = 1; break; }
	t->fires_latest = 0;
	t->nep++;   // visible to the handler from the call on
	h_log("timer %d set_timer clock=%s start=%+ld ns interval=%lu old-budget %d", t->id, clk_names[e->clock], (long)delta, (unsigned long)interval, sharp);
	dispatch_source_set_timer(t->ds, st, interval ? interval : DISPATCH_TIME_FOREVER, leeway);
	e->ret = h_stamp();
}

static void timer_handler(void *ctx) {
	tm_rec *t = ctx;
	t->running++;
	if (t->running > 1) h_viol("handler-reentered", "timer %d handler running twice at once", t->id);
	uint64_t st = h_stamp();
	unsigned long n = dispatch_source_get_data(t->ds);
	if (t->cancelled) { /* judged by C16 */ }
	t->fires++;
	// which configurations can explain this invocation?
	int lo = t->nep - 1;
	while (lo > 0 && (t->ep[lo].amb || (t->ep[lo].sharp != 0 && !t->ep[lo].confirmed))) lo--;
	int ok_any = 0, ok_latest_only = -1, oldest_ok = -1; char why[200] = "";
	for (int i = t->nep - 1; i >= lo; i--) {
		epoch *e = &t->ep[i];
		uint64_t hw = clock_hw(e->clock);
		uint64_t start_lb = e->start;
		int ok = 1;
		if (start_lb == UINT64_MAX) { ok = 0; snprintf(why, sizeof why, "configured start is FOREVER"); }
		else if (hw < start_lb) { ok = 0; snprintf(why, sizeof why, "%lu ns before its start time on the %s clock", (unsigned long)(start_lb - hw), clk_names[e->clock]); }
		else if (e->cum + n > boundaries(e, hw)) { ok = 0; snprintf(why, sizeof why, "cumulative data %lu exceeds the %lu interval boundaries passed", (unsigned long)(e->cum + n), (unsigned long)boundaries(e, hw)); }
		if (ok) { if (!ok_any) ok_latest_only = i; ok_any++; oldest_ok = i; }
	}
	// the data is charged to a configuration only when no other one in force explains it as well: with two set_timer
	// calls racing, a first invocation may belong to either, and charging it to the wrong one (the older, repeating
	// one, when it really was the newer one-shot that the library applied first) made a later, legitimate count look
	// one too high -- a false alarm seen once in 157 k instrumented-mode runs
	if (ok_any == 1) t->ep[oldest_ok].cum += n;
	h_log("timer %d fires data=%lu epochs %d..%d ok=%d", t->id, n, lo, t->nep - 1, ok_any);
	if (n == 0) T.zero_data++;   // possible after a backward step of the wall clock; the property only bounds the count from above
	if (!ok_any) {
		epoch *e = &t->ep[t->nep - 1];
		h_viol(strstr(why, "before") || strstr(why, "FOREVER") ? "early" : "too-many", "timer %d (clock %s, interval %lu ns, %d configuration(s) in force) fired with data %lu: %s",
			t->id, clk_names[e->clock], (unsigned long)e->interval, t->nep - lo, n, why);
	}
	if (ok_any == 1 && ok_latest_only == t->nep - 1) t->ep[t->nep - 1].confirmed = 1;
	// an invocation that only older settings explain uses up the allowance of every newer setting
	if (ok_any) for (int i = t->nep - 1; i > ok_latest_only; i--) if (t->ep[i].sharp > 0) t->ep[i].sharp--;
	if (ok_latest_only == t->nep - 1) {
		t->fires_latest++;
		epoch *e = &t->ep[t->nep - 1];
		uint64_t hw = clock_hw(e->clock);
		if (!e->interval && hw > e->start && hw - e->start > T.max_late_ns) T.max_late_ns = hw - e->start;
	}
	(void)st;
	if (t->reconf_from_handler) {
		t->reconf_from_handler = 0;
		do_set_timer(t, t->rc_clock, (int64_t)t->rc_start_delta, t->rc_interval, 0, 0, 0);
	}
	sim_point();
	t->running--;
	h_progress();
}
static void timer_cancel_handler(void *ctx) { tm_rec *t = ctx; t->cancel_handler_runs++; h_progress(); }

static tm_rec *new_timer(int clock, int64_t delta, uint64_t interval, uint64_t leeway, int qi, int strict, int forever) {
	if (T.ntm >= MAXTM) return NULL;
	tm_rec *t = &T.tm[T.ntm]; memset(t, 0, sizeof *t); t->id = T.ntm++; t->qi = qi; t->strict = strict;
	t->ds = dispatch_source_create(DISPATCH_SOURCE_TYPE_TIMER, 0, strict ? DISPATCH_TIMER_STRICT : 0, T.q[qi]);
	if (!t->ds) h_viol("create", "timer source creation failed");
	dispatch_set_context(t->ds, t);
	if (T.ntm <= 6) { sim_watch(t->ds, 120); sim_watch(*(void **)((char *)t->ds + 88), 120); }   // the source and its timer refs
	if (t->id & 1) { dispatch_source_set_event_handler(t->ds, ^{ timer_handler(t); }); dispatch_source_set_cancel_handler(t->ds, ^{ timer_cancel_handler(t); }); }
	else { dispatch_source_set_event_handler_f(t->ds, timer_handler); dispatch_source_set_cancel_handler_f(t->ds, timer_cancel_handler); }
	do_set_timer(t, clock, delta, interval, leeway, 0, forever);
	dispatch_activate(t->ds);
	t->ready = 1;
	int live = 0; for (int i = 0; i < T.ntm; i++) if (!T.tm[i].cancelled) live++;
	if (live > T.max_population) T.max_population = live;
	return t;
}
static void after_fn(void *ctx) {
	after_rec *a = ctx;
	a->count++;
	uint64_t hw = clock_hw(a->clock);
	h_log("after block %d runs", (int)(a - T.af));
	if (a->count > 1) h_viol("after-twice", "a dispatch_after block ran %d times", a->count);
	if (hw < a->when_abs) h_viol("early", "dispatch_after block ran %lu ns before its deadline on the %s clock", (unsigned long)(a->when_abs - hw), clk_names[a->clock]);
	if (hw - a->when_abs > T.max_late_ns && !a->far) T.max_late_ns = hw - a->when_abs;
	h_progress();
}
static void new_after(int clock, int64_t delta, int qi, int form) {
	if (T.naf >= MAXAFTER) return;
	after_rec *a = &T.af[T.naf++]; memset(a, 0, sizeof *a); a->clock = clock; a->qi = qi; a->far = delta > (int64_t)(30 * NSEC);
	dispatch_time_t when = mk_time(clock, delta, &a->when_abs);
	if (delta <= 0 && clock != 2) { /* already past: value is an absolute time in the past */ }
	a->call = h_stamp();
	h_log("dispatch_after %d clock=%s %+ld ns", (int)(a - T.af), clk_names[clock], (long)delta);
	if (form) dispatch_after(when, T.q[qi], ^{ after_fn(a); });
	else dispatch_after_f(when, T.q[qi], a, after_fn);
}

static int far_pct = 15;   // share of timers that are hours away (a populated heap needs far parents over far children for some removals to matter)
static int64_t gen_delta(int *far) {
	*far = 0;
	uint32_t r = g_n(100);
	if (r >= 100u - (uint32_t)far_pct) { *far = 1; return (int64_t)((3600ull + g_n(200000)) * NSEC); }
	r = g_n(85);
	if (r < 10) return -(int64_t)(g_n(1000000) + 1);                 // past
	if (r < 20) return 0;                                            // now
	if (r < 70) return (int64_t)(10000 + g_n(3000000));              // near: 10 us .. 3 ms
	if (r < 85) return (int64_t)(3000000 + g_n(40000000));           // 3 .. 43 ms
	*far = 1;
	return (int64_t)((3600ull + g_n(200000)) * NSEC);               // hours to days: must never fire
}
// the ends of the value range (the configuration code clamps negative-looking values and sums near INT64_MAX)
static uint64_t gen_leeway(uint32_t span) {
	static const uint64_t ends[] = { INT64_MAX, UINT64_MAX, 1ull << 63, 1ull << 62, (uint64_t)INT64_MAX - 1 };
	if (g_chance(1, 20)) return ends[g_n(5)];
	return g_chance(1, 2) ? 0 : g_n(span);
}
static uint64_t gen_interval(void) {
	uint32_t r = g_n(100);
	if (r < 3) { static const uint64_t ends[] = { INT64_MAX, 1ull << 62, (1ull << 63) + 5, UINT64_MAX - 1 }; return ends[g_n(4)]; }   // fires once, the second boundary is centuries away
	if (r < 45) return 0;                                            // one-shot
	if (r < 75) return 50000 + g_n(400000);                          // 50 .. 450 us
	return 500000 + g_n(5000000);
}

enum { TO_PAUSE, TO_NEW, TO_AFTER, TO_RECONF_OTHER, TO_RECONF_HANDLER, TO_RECONF_SUSPENDED, TO_SUSPEND_RESUME, TO_CANCEL, TO_CANCEL_MANY, TO_BLOCK_QUEUE, TO_CANCEL_ALL, TO_N };
static void block_item(void *c) { sim_sleep_ns((uint64_t)(uintptr_t)c); }   // keeps a handler queue busy: sources pile up behind it
typedef struct top { int idx, kind, tm, clock, qi, form, far; int64_t delta; uint64_t interval, leeway, pause; } top;
static top tops[4][12]; static int ntops[4];

static void *timer_client(void *arg) {
	int th = (int)(intptr_t)arg;
	for (int i = 0; i < ntops[th]; i++) {
		top *op = &tops[th][i];
		if (!op_on(op->idx)) continue;
		tm_rec *t = T.ntm ? &T.tm[op->tm % T.ntm] : NULL;
		if (t && !t->ready) t = NULL;
		switch (op->kind) {
		case TO_PAUSE: sim_sleep_ns(op->pause); break;
		case TO_NEW: new_timer(op->clock, op->delta, op->interval, op->leeway, op->qi, op->form, 0); break;
		case TO_AFTER: new_after(op->clock, op->delta, op->qi, op->form); break;
		case TO_RECONF_OTHER: if (t && !t->cancelled) do_set_timer(t, op->clock, op->delta, op->interval, op->leeway, -1, 0); break;
		case TO_RECONF_HANDLER: if (t && !t->cancelled) { t->rc_clock = op->clock; t->rc_start_delta = (uint64_t)(op->delta < 0 ? 1000 : op->delta); t->rc_interval = op->interval; t->reconf_from_handler = 1; } break;
		case TO_RECONF_SUSPENDED:
			if (t && !t->cancelled) {
				dispatch_suspend(t->ds); t->suspended++;
				// an invocation committed before the suspend returned may still be running: wait it out
				for (int k = 0; k < 200 && t->running; k++) sim_sleep_ns(5 * USEC);
				do_set_timer(t, op->clock, op->delta, op->interval, op->leeway, t->running ? -1 : 1, 0);
				t->suspended--; t->resume_call = h_stamp();
				dispatch_resume(t->ds);
			}
			break;
		case TO_SUSPEND_RESUME:
			if (t && !t->cancelled) { dispatch_suspend(t->ds); t->suspended++; sim_sleep_ns(op->pause); t->suspended--; dispatch_resume(t->ds); }
			break;
		case TO_CANCEL: if (t && !t->cancelled) { t->cancelled = 1; h_log("cancel timer %d", t->id); dispatch_source_cancel(t->ds); } break;
		case TO_BLOCK_QUEUE: if (op->qi) dispatch_async_f(T.q[op->qi], (void *)(uintptr_t)(op->pause * 8), block_item); break;   // up to ~5 ms
		case TO_CANCEL_ALL:
			for (int k = 0, n = T.ntm; k < n; k++) { tm_rec *v = &T.tm[k]; if (!v->ready || v->cancelled || !v->nep) continue; v->cancelled = 1; h_log("cancel timer %d (all)", v->id); dispatch_source_cancel(v->ds); }
			break;
		case TO_CANCEL_MANY: {
			// arbitrary removals from a populated heap, in an order unrelated to the deadlines
			uint64_t x = (uint64_t)op->delta * 0x9e3779b97f4a7c15ull + (uint64_t)op->tm;
			for (int k = 0, n = T.ntm; k < n; k++) {
				x = x * 6364136223846793005ull + 1442695040888963407ull;
				tm_rec *v = &T.tm[(x >> 33) % (uint64_t)n];
				if (!v->ready || v->cancelled || !v->nep) continue;
				// mostly far timers go (they sit deep in the heap, under other far ones); a quarter of the near ones too
				if (v->ep[v->nep - 1].far ? ((x >> 20) & 3) == 0 : ((x >> 20) & 3) != 0) continue;
				v->cancelled = 1; h_log("cancel timer %d (churn)", v->id); dispatch_source_cancel(v->ds);
				if (((x >> 24) & 3) == 0) sim_point();
			}
			break; }
		}
		sim_point();
	}
	T.done++; h_progress();
	return NULL;
}

// a live timer whose latest configuration is near must have fired under it.
// returns the number of obligations still open; *overdue is set when one of them is past start + leeway + L
static int pending_liveness(char *buf, size_t cap, int *overdue) {
	int n = 0; size_t o = 0;
	if (overdue) *overdue = 0;
	for (int i = 0; i < T.ntm; i++) {
		tm_rec *t = &T.tm[i];
		if (!t->ready || t->cancelled || t->suspended || t->reconf_from_handler) continue;
		epoch *e = &t->ep[t->nep - 1];
		if (e->far || e->amb || e->start == UINT64_MAX || t->fires_latest) continue;
		uint64_t now = clock_now(e->clock);
		if (e->start > now && e->start - now > 30 * NSEC) continue;   // a clock step moved it out of the horizon
		n++;
		if (now >= e->start && !e->due_up) e->due_up = sim_now();
		int od = e->due_up && e->leeway < (1ull << 60) && sim_now() - e->due_up >= e->leeway + LIVENESS_NS;   // (a leeway of centuries: the library may take its time)
		if (od && overdue) *overdue = 1;
		if (buf && od && o + 100 < cap) o += (size_t)snprintf(buf + o, cap - o, "timer %d (%s clock, interval %lu ns) has not fired %.3f s after its start time was reached; ",
			t->id, clk_names[e->clock], (unsigned long)e->interval, (double)(sim_now() - e->due_up) / 1e9);
	}
	for (int i = 0; i < T.naf; i++) if (!T.af[i].far && !T.af[i].count) {
		uint64_t now = clock_now(T.af[i].clock);
		if (T.af[i].when_abs > now && T.af[i].when_abs - now > 30 * NSEC) continue;
		n++;
		if (now >= T.af[i].when_abs && !T.af[i].due_up) T.af[i].due_up = sim_now();
		int od = T.af[i].due_up && sim_now() - T.af[i].due_up >= 2 * LIVENESS_NS;   // dispatch_after allows itself up to 60 s of leeway
		if (od && overdue) *overdue = 1;
		if (buf && od && o + 100 < cap) o += (size_t)snprintf(buf + o, cap - o, "dispatch_after %d (%s clock) has not run %.3f s after its deadline was reached; ", i, clk_names[T.af[i].clock], (double)(sim_now() - T.af[i].due_up) / 1e9);
	}
	return n;
}
static bool timers_done(void *c) { (void)c; return T.done == T.nth && pending_liveness(NULL, 0, NULL) == 0; }

static void c11_run(void) {
	memset(&T, 0, sizeof T);
	bool big = RC.cfg & CFG_THOROUGH;
	int npop = g_chance(1, 4) ? g_range(12, big ? 40 : 30) : g_range(1, 8);
	far_pct = (npop >= 12 && g_chance(1, 2)) ? 50 : 15;
	T.nth = g_range(1, 3);
	T.q[0] = dispatch_get_global_queue(0, 0);
	T.q[1] = dispatch_queue_create("tm-serial", NULL);
	T.q[2] = dispatch_queue_create("tm-serial2", NULL);
	int idx = 0;
	h_sample("population %d, clients %d\n", npop, T.nth);
	// initial population (operations 0..npop-1 can be switched off)
	struct { int clock, qi, strict, far; int64_t delta; uint64_t interval, leeway; } pop[40];
	for (int i = 0; i < npop; i++) {
		pop[i].clock = (int)g_n(3); pop[i].qi = (int)g_n(3); pop[i].strict = g_chance(1, 4);
		pop[i].delta = gen_delta(&pop[i].far); pop[i].interval = gen_interval();
		pop[i].leeway = gen_leeway(200000);
		idx++;
	}
	for (int th = 0; th < T.nth; th++) {
		ntops[th] = g_range(2, 9);
		for (int i = 0; i < ntops[th]; i++) {
			top *op = &tops[th][i]; memset(op, 0, sizeof *op); op->idx = idx++;
			uint32_t r = g_n(100);
			op->kind = r < 18 ? TO_PAUSE : r < 25 ? TO_BLOCK_QUEUE : r < 40 ? TO_NEW : r < 58 ? TO_AFTER : r < 68 ? TO_RECONF_OTHER : r < 76 ? TO_RECONF_HANDLER : r < 84 ? TO_RECONF_SUSPENDED : r < 92 ? TO_SUSPEND_RESUME : TO_CANCEL;
			op->tm = (int)g_n(64); op->clock = (int)g_n(3); op->qi = (int)g_n(3); op->form = (int)g_n(2);
			op->delta = gen_delta(&op->far); op->interval = gen_interval(); op->leeway = gen_leeway(100000);
			op->pause = (uint64_t)g_range(5, 600) * USEC;
		}
	}
	// a populated heap gets a burst of removals from the first client in half of those runs
	if (npop >= 12 && g_chance(1, 2)) { top *op = &tops[0][(int)g_n((uint32_t)ntops[0])]; op->kind = TO_CANCEL_MANY; }
	// a dedicated shape (an eighth of the runs): one repeating timer on the wall or monotonic clock whose handler queue
	// is blocked; after its first fire (the source now sits behind the blocker) it is given new settings, often on another clock, with a
	// start that is already due -- the pending configuration is then applied by the manager when the old deadline
	// comes round, into a heap the manager has already been through; nothing else is pending that could rescue it
	if (g_chance(1, 8)) {
		npop = 1; T.nth = 1;
		pop[0].clock = (int)g_n(3); pop[0].qi = 1 + (int)g_n(2); pop[0].strict = 0; pop[0].far = 0;
		pop[0].delta = (int64_t)(100000 + g_n(300000)); pop[0].interval = 100000 + g_n(400000); pop[0].leeway = 0;
		int n = 0; top *op;
		op = &tops[0][n++]; memset(op, 0, sizeof *op); op->idx = idx++; op->kind = TO_BLOCK_QUEUE; op->qi = pop[0].qi; op->pause = (uint64_t)g_range(200, 600) * USEC;
		op = &tops[0][n++]; memset(op, 0, sizeof *op); op->idx = idx++; op->kind = TO_PAUSE; op->pause = (uint64_t)pop[0].delta + (uint64_t)g_n(300000);
		op = &tops[0][n++]; memset(op, 0, sizeof *op); op->idx = idx++; op->kind = TO_RECONF_OTHER; op->tm = 0; op->clock = (int)g_n(3);
		op->delta = g_chance(1, 3) ? -(int64_t)g_n(100000) : g_chance(1, 2) ? 0 : (int64_t)g_n(80000); op->interval = g_chance(1, 2) ? 0 : 50000 + g_n(300000); op->leeway = 0;
		ntops[0] = n;
	}
	// a second dedicated shape (another eighth): a sparse clock. One or two timers, all on one clock, are cancelled
	// before they fire, the clock then stays empty until their old deadlines are past, and only then something new is
	// armed on it (the kernel timer of a clock that went empty and comes back), once or twice over
	else if (g_chance(1, 7)) {
		int clk = (int)g_n(3); npop = g_range(1, 2); T.nth = 1;
		int64_t maxd = 0;
		for (int i = 0; i < npop; i++) { pop[i].clock = clk; pop[i].qi = (int)g_n(3); pop[i].strict = 0; pop[i].far = 0; pop[i].delta = (int64_t)(200000 + g_n(600000)); pop[i].interval = g_chance(1, 2) ? 0 : 100000 + g_n(400000); pop[i].leeway = 0; if (pop[i].delta > maxd) maxd = pop[i].delta; }
		int n = 0; top *op;
		int cycles = g_range(1, 2);
		for (int cy = 0; cy < cycles; cy++) {
			op = &tops[0][n++]; memset(op, 0, sizeof *op); op->idx = idx++; op->kind = TO_PAUSE; op->pause = (uint64_t)g_range(1, 150) * USEC;
			op = &tops[0][n++]; memset(op, 0, sizeof *op); op->idx = idx++; op->kind = TO_CANCEL_ALL;    // everything armed so far
			op = &tops[0][n++]; memset(op, 0, sizeof *op); op->idx = idx++; op->kind = TO_PAUSE; op->pause = (uint64_t)maxd + (uint64_t)g_n(400000);
			op = &tops[0][n++]; memset(op, 0, sizeof *op); op->idx = idx++; op->kind = g_chance(1, 2) ? TO_NEW : TO_AFTER; op->clock = clk; op->qi = (int)g_n(3); op->form = (int)g_n(2);
			op->delta = (int64_t)(50000 + g_n(500000)); op->interval = g_chance(1, 2) ? 0 : 100000 + g_n(300000); op->leeway = 0;
			maxd = op->delta;
		}
		ntops[0] = n;
	}
	// a third dedicated shape: a few repeating timers are given new settings on another clock by one thread while a
	// second thread cancels them (the manager moves a timer between the heaps of two clocks while the cancellation
	// is being processed on the timer's own queue)
	else if (g_chance(1, 8)) {
		npop = g_range(2, 5); T.nth = 2;
		for (int i = 0; i < npop; i++) { pop[i].clock = (int)g_n(3); pop[i].qi = (int)g_n(3); pop[i].strict = g_chance(1, 4); pop[i].far = 0; pop[i].delta = (int64_t)(30000 + g_n(300000)); pop[i].interval = 50000 + g_n(250000); pop[i].leeway = 0; }
		int n0 = 0, n1 = 0; top *op;
		op = &tops[1][n1++]; memset(op, 0, sizeof *op); op->idx = idx++; op->kind = TO_PAUSE; op->pause = (uint64_t)g_range(1, 400) * USEC;
		for (int i = 0; i < npop; i++) {
			op = &tops[0][n0++]; memset(op, 0, sizeof *op); op->idx = idx++; op->kind = g_chance(1, 4) ? TO_RECONF_SUSPENDED : TO_RECONF_OTHER; op->tm = i; op->clock = (pop[i].clock + 1 + (int)g_n(2)) % 3;
			op->delta = g_chance(1, 2) ? 0 : (int64_t)g_n(200000); op->interval = g_chance(1, 3) ? 0 : 50000 + g_n(250000); op->leeway = 0;
			if (g_chance(1, 2)) { op = &tops[0][n0++]; memset(op, 0, sizeof *op); op->idx = idx++; op->kind = TO_PAUSE; op->pause = (uint64_t)g_range(1, 200) * USEC; }
			op = &tops[1][n1++]; memset(op, 0, sizeof *op); op->idx = idx++; op->kind = TO_CANCEL; op->tm = (i + (int)g_n(2)) % npop;
			if (g_chance(1, 2)) { op = &tops[1][n1++]; memset(op, 0, sizeof *op); op->idx = idx++; op->kind = TO_PAUSE; op->pause = (uint64_t)g_range(1, 200) * USEC; }
		}
		ntops[0] = n0; ntops[1] = n1;
	}
	for (int i = 0; i < npop; i++) if (op_on(i))
		h_sample("#%d timer clock=%s start=%+ld interval=%lu leeway=%lu q%d%s\n", i, clk_names[pop[i].clock], (long)pop[i].delta, (unsigned long)pop[i].interval, (unsigned long)pop[i].leeway, pop[i].qi, pop[i].strict ? " strict" : "");
	static const char *const tn[TO_N] = { "pause", "new-timer", "after", "set_timer(other thread)", "set_timer(from handler)", "suspend+set_timer+resume", "suspend+resume", "cancel", "cancel-many", "block-handler-queue", "cancel-all" };
	for (int th = 0; th < T.nth; th++) {
		h_sample("client %d:", th);
		for (int i = 0; i < ntops[th]; i++) if (op_on(tops[th][i].idx)) {
			top *op = &tops[th][i];
			h_sample(" #%d %s", op->idx, tn[op->kind]);
			if (op->kind == TO_PAUSE) h_sample("(%luus)", (unsigned long)(op->pause / 1000));
			else if (op->kind != TO_CANCEL && op->kind != TO_CANCEL_MANY && op->kind != TO_CANCEL_ALL && op->kind != TO_SUSPEND_RESUME && op->kind != TO_BLOCK_QUEUE) h_sample("(%s,%+ld,%lu)", clk_names[op->clock], (long)op->delta, (unsigned long)op->interval);
		}
		h_sample("\n");
	}
	h_announce();
	for (int i = 0; i < npop; i++) if (op_on(i)) new_timer(pop[i].clock, pop[i].delta, pop[i].interval, pop[i].leeway, pop[i].qi, pop[i].strict, 0);
	sim_thread *th[4];
	for (int t = 0; t < T.nth; t++) th[t] = sim_spawn(timer_client, (void *)(intptr_t)t, "timer-client");
	h_end_fault_phase(th, T.nth, 2 * NSEC);
	// stop the timers that have done their duty so that repeating ones do not burn steps while we wait
	for (int i = 0; i < T.ntm; i++) { tm_rec *t = &T.tm[i]; if (t->ready && !t->cancelled && (t->fires_latest || t->ep[t->nep - 1].far) && t->ep[t->nep - 1].interval && !t->suspended) { t->cancelled = 1; dispatch_source_cancel(t->ds); } }
	// liveness: everything near fires within start + leeway + L on its own clock
	for (int round = 0; round < 1000 && !timers_done(NULL); round++) {
		int overdue = 0;
		pending_liveness(NULL, 0, &overdue);
		if (overdue || (T.done < T.nth && round > 400)) { char b[400] = "a timer client did not finish"; pending_liveness(b, sizeof b, NULL); h_stuck("never-fired", b); }
		h_wait_until(timers_done, NULL, 200 * MSEC);
		for (int i = 0; i < T.ntm; i++) { tm_rec *t = &T.tm[i]; if (t->ready && !t->cancelled && t->fires_latest && t->ep[t->nep - 1].interval && !t->suspended) { t->cancelled = 1; dispatch_source_cancel(t->ds); } }
	}
	if (!timers_done(NULL)) { char b[400] = "obligations still open after 200 simulated seconds"; h_stuck("never-fired", b); }
	for (int i = 0; i < T.ntm; i++) if (T.tm[i].ready && !T.tm[i].cancelled) { T.tm[i].cancelled = 1; dispatch_source_cancel(T.tm[i].ds); }
	h_settle(20 * MSEC);
	for (int i = 0; i < T.naf; i++) if (T.af[i].count > 1) h_viol("after-twice", "dispatch_after block %d ran %d times", i, T.af[i].count);
	int fires = 0; for (int i = 0; i < T.ntm; i++) fires += T.tm[i].fires;
	RES.counters[0] = T.ntm; RES.counters[1] = fires; RES.counters[2] = T.naf; RES.counters[3] = T.max_population; RES.counters[4] = (int64_t)(T.max_late_ns / 1000);
	RES.counters[5] = sim_st.walljumps; RES.counters[6] = sim_st.warps; RES.counters[7] = T.zero_data;
	RES.nontrivial = fires > 0 && T.ntm >= 2;
}
static void c11_tune(sim_knobs *k, unsigned cfg, uint64_t *g) {
	if (cfg & CFG_FAULTY) {
		if ((g[0] >> 8) % 3 == 0) { k->timefault_den = 300; k->timefault_mask = 7; }
		else if ((g[0] >> 8) % 3 == 1) { k->timefault_den = 600; k->timefault_mask = 1; }
	}
	if (k->tick_ns == 0) k->tick_ns = 20;
	// resource shortage makes the library sleep for a whole second while repeating timers keep running
	k->alloc_den = 0; k->thrfail_den = 0;
	k->step_cap = 4000000;
}
static const char *const c11_names[] = { "timers", "timer_firings", "dispatch_after_blocks", "max_population_sum", "lateness_us_sum_of_max", "wall_jumps", "warps", "invocations_with_data_0", NULL };
const prop_def prop_C11 = { "C11", c11_tune, c11_run, c11_names,
	"non-trivial: at least two timers existed and at least one fired; distinct = distinct schedule signatures among those (populations, heap sizes reached and clock faults are reported in property_counters / faults_fired)" };

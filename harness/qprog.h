// queue-family workload interpreter (C01-C06, C05 parts, C18 context half)
#pragma once
#include "h.h"

enum { QK_SERIAL, QK_CONC, QK_GLOBAL, QK_MAIN, QK_WORKLOOP, QK_N };
enum { OP_ASYNC, OP_BARRIER_ASYNC, OP_GROUP_ASYNC, OP_SYNC, OP_BARRIER_SYNC, OP_AAW, OP_BARRIER_AAW,
	OP_APPLY, OP_SUSPEND, OP_ACTIVATE, OP_PAUSE, OP_RETARGET, OP_N };
enum { B_EMPTY, B_YIELD, B_SLEEP, B_NEST, B_WAIT_LATER, B_N };

// oracle selection
enum {
	O_ONCE      = 1 << 0,   // C01: exactly once, liveness, sync forms return
	O_SERIAL    = 1 << 1,   // C02: serial exclusion + submission order
	O_HIER      = 1 << 2,   // C03: serial-bottomed hierarchy exclusion (+ per-queue order)
	O_BARRIER   = 1 << 3,   // C04: barrier exclusion + ordering on concurrent queues
	O_SYNCRET   = 1 << 4,   // C05: sync forms return after their item's end; payloads
	O_SUSPEND   = 1 << 5,   // C06
	O_SPECIFIC  = 1 << 6,   // C18: get_specific / assert_queue
};

#define QMAX 10
#define MAX_ITEMS 1200
#define MAX_CLIENTS 6

typedef struct qnode {
	int kind, target, gprio, overcommit, inactive, width, relpri, qosattr;
	dispatch_queue_t q;
	int tree;             // index of the top-most non-global queue of its chain (-1: global itself)
	int dom;              // bottom-most serialising queue of the chain (serial/workloop/main), -1 none
	int depth;
	// oracle state
	int running, running_barrier, dom_running, last_item, dom_last_item, width_running;
	int through_running;   // items running on queues below this one (their chain passes through it); moved queues are not counted
	// suspension bookkeeping (C06)
	int susp_ret_minus_res_call;   // D(t): suspends returned - resumes called
	int activated_call;            // activate called (for initially inactive queues)
	uint64_t activate_call_stamp;
	int window_open, window_onqueue, window_starts; uint64_t window_open_stamp;
	// queue-specific model (C18)
	void *spec[4];
	char spec_dup[4], spec_temp[4];   // set by two threads at once (same value) / set by two threads at once and removed again before anything runs
	dispatch_queue_t late_tq;   // initially inactive queue whose target is set by the activating thread, right before dispatch_activate
	char label[24];
	// dispatch_set_target_queue on an active leaf queue (C03): new target, stamps of the call
	int retarget_to; uint64_t rt_call, rt_ret;
} qnode;

typedef struct qop {
	int idx, kind, q, form;
	int body, body_arg;
	int nchild; struct qop *child;
	int item;            // first item id
	int apply_n, apply_auto;
	int wait_item;       // B_WAIT_LATER: item to wait for
	int depth;           // suspend: nesting depth; pause: microseconds
	int split;           // suspend: this many of the resumes come first, the rest after the ops executed while suspended
	int resume_after;    // suspend: number of following ops of the same list before the resumes
	int onqueue;         // suspend issued from an item running on that queue
	int arm_rel, arm_code; // workload-placed stall of the submitting thread inside this submission
	int caller_tid;      // apply: simulated thread that called dispatch_apply
} qop;

typedef struct qitem {
	int id, op_idx, q, opkind, barrier, sync, client, parent, apply_index, form;
	uint64_t call, ret, start, end;
	int count, tid, skipped, submitted;
	sim_event done_ev;
	qop *op;
	uint64_t payload[3], cksum, result, result_ck;
	int prev_on_queue;   // item that ended last on this serial queue when this one started
	int holds_width;     // counts against the width of narrowed queues while it runs (see item_begin)
	int dom;             // serialising bottom of the hierarchy its queue was in when it was submitted (-1 none, -2 unknown: submitted while the queue was being retargeted)
	int dom_new_chain;   // submitted to a moved queue after dispatch_set_target_queue had returned: runs inside the new chain
} qitem;

typedef struct qgen {
	unsigned oracles;
	int min_clients, max_clients, min_ops, max_ops, min_queues, max_queues, max_qdepth, nest_depth;
	unsigned opmask, bodymask, qkindmask;
	int gate;            // gate mode: item bodies wait for a harness gate; asynchronous forms only
	int poolblock;       // pool-blocker shape
	int pingpong;        // one client alternates async / sync on one queue
	int single_queue;    // all client ops go to queue index `focus`
	int nest_pct;        // chance (percent) that an item body nests further ops
	int inactive_pct;    // chance that a non-global queue is created inactive
	int apply_max, apply_big, apply_weight;   // apply_weight: percent of ops forced to be dispatch_apply
	int suspend_depth_max;
	int width_pct;       // chance that a concurrent queue gets a small explicit width
	int use_main;        // include the main queue, drained by sim thread 0
	int dispatch_main;   // ... or (with use_main) the main thread calls dispatch_main() and the queue becomes an ordinary serial queue
	int main_tree;       // queues may target the main queue; any item outside that tree may dispatch_sync into it
	int specific;        // set queue-specific keys
	int blockobj;        // barrier items may be DISPATCH_BLOCK_BARRIER block objects
	int retarget;        // an active leaf queue may be moved under another queue with dispatch_set_target_queue while it is in use
	int suspend_inactive; // suspend/resume may also hit queues that have not been activated yet
	int no_privblocks;   // 1: never replace a block literal by a dispatch_block_create(0, ...) object
} qgen;

void qgen_defaults(qgen *g);
void qprog_run(const qgen *g);

// counters exported to evidence (indices into RES.counters)
enum { QC_ITEMS, QC_SYNC_CALLS, QC_OVERLAP_READERS, QC_BARRIERS, QC_NESTED, QC_POOLBLOCK, QC_GATE,
	QC_SUSPENDS, QC_SUSP_WINDOWS, QC_SUSP_COMMITTED, QC_WORKLOOPS, QC_MAINQ, QC_APPLY_ITERS,
	QC_INACTIVE, QC_HIER_DEPTH_SUM, QC_ORDER_PAIRS, QC_SPECIFIC_CHECKS, QC_ASSERTS, QC_N_ };
extern const char *const qprog_counter_names[];

// queue-family workload interpreter: generates a small client program over a queue graph,
// runs it on real libdispatch under the simulator, judges the recorded history.
#include "qprog.h"
#include <Block.h>

const char *const qprog_counter_names[] = { "items", "sync_calls", "runs_with_overlapping_readers", "barrier_items",
	"nested_ops", "poolblock_runs", "gate_runs", "suspend_calls", "suspend_windows", "committed_starts_in_window",
	"workloop_runs", "mainq_runs", "apply_iterations", "inactive_queues", "hier_depth_sum", "order_pairs_checked",
	"specific_checks", "assert_calls", NULL };

static const qgen *G;
static qnode Q[QMAX]; static int nq;
static qitem *IT; static int nitems;
static qop *client_ops[MAX_CLIENTS]; static int client_nops[MAX_CLIENTS]; static int nclients;
static int next_op_idx;
static int spec_by_clients, spec_ready, spec_ready2; static sim_event spec_ev, spec_ev2;
static dispatch_group_t grp;
static sim_event gate_ev;
static int items_done, items_expected, clients_done;
static int max_readers_overlap;
static int mainq_stop;
static const char *const opnames[OP_N] = { "async", "barrier_async", "group_async", "sync", "barrier_sync",
	"async_and_wait", "barrier_async_and_wait", "apply", "suspend", "activate", "pause", "set_target_queue" };
static const char *const qknames[QK_N] = { "serial", "concurrent", "global", "main", "workloop" };
static char keys[4];   // addresses serve as queue-specific keys

static inline bool op_is_sync(int k) { return k == OP_SYNC || k == OP_BARRIER_SYNC || k == OP_AAW || k == OP_BARRIER_AAW || k == OP_APPLY; }
static inline bool op_is_barrier(int k) { return k == OP_BARRIER_ASYNC || k == OP_BARRIER_SYNC || k == OP_BARRIER_AAW; }
static inline bool q_serialish(int kind) { return kind == QK_SERIAL || kind == QK_MAIN || kind == QK_WORKLOOP; }

/* ------------------------------------------------------------------ generation */

static int focus_q = -1;   // the queue that is moved during the run: half of those runs aim most of their traffic at it and at its new target
static void gen_queues(void) {
	focus_q = -1;
	nq = g_range(G->min_queues, G->max_queues);
	if (nq > QMAX) nq = QMAX;
	for (int i = 0; i < nq; i++) {
		qnode *n = &Q[i]; memset(n, 0, sizeof *n);
		n->target = -1; n->tree = -1; n->dom = -1; n->last_item = -1; n->dom_last_item = -1; n->retarget_to = -1;
		// pick a kind from the mask
		int kinds[QK_N], nk = 0;
		for (int k = 0; k < QK_N; k++) if (G->qkindmask & (1u << k)) {
			if (k == QK_MAIN && (!G->use_main || i != 0)) continue;   // main queue only as queue 0
			kinds[nk++] = k;
		}
		n->kind = kinds[g_n((uint32_t)nk)];
		if (G->use_main && i == 0 && (G->qkindmask & (1u << QK_MAIN))) n->kind = QK_MAIN;
		static const int prios[] = { DISPATCH_QUEUE_PRIORITY_HIGH, DISPATCH_QUEUE_PRIORITY_DEFAULT, DISPATCH_QUEUE_PRIORITY_LOW, DISPATCH_QUEUE_PRIORITY_BACKGROUND };
		n->gprio = prios[g_n(4)];
		// F6 (DESIGN.md 6): PRIORITY_HIGH maps to the background root on this platform; harmless here
		n->overcommit = (n->kind == QK_GLOBAL && g_chance(1, 4)) ? 1 : 0;   // DISPATCH_QUEUE_OVERCOMMIT root queues: one thread per wake-up
		n->qosattr = (n->kind == QK_SERIAL || n->kind == QK_CONC) && g_chance(1, 4) ? 1 + (int)g_n(5) : 0; n->relpri = n->qosattr ? -(int)g_n(8) : 0;
		if (n->kind == QK_SERIAL || n->kind == QK_CONC) {
			// target: an earlier non-global, non-main queue (depth limited) or the default root
			if (i > 0 && g_chance(55, 100)) {
				int t = (int)g_n((uint32_t)i);
				if (Q[t].kind != QK_GLOBAL && (Q[t].kind != QK_MAIN || G->main_tree) && Q[t].depth + 1 < G->max_qdepth) n->target = t;
			}
			n->inactive = g_chance(G->inactive_pct, 100);
			if (n->kind == QK_CONC && g_chance(G->width_pct, 100)) n->width = g_range(2, 4);
		}
		if (n->target >= 0) {
			n->depth = Q[n->target].depth + 1;
			n->tree = Q[n->target].tree;
			n->dom = Q[n->target].dom;
		} else {
			n->tree = (n->kind == QK_GLOBAL) ? -1 : i;
		}
		if (q_serialish(n->kind) && n->dom < 0) n->dom = i;
		if (q_serialish(n->kind) && n->target >= 0 && Q[n->target].dom < 0) n->dom = i;
		snprintf(n->label, sizeof n->label, "q%d", i);
	}
	// C03: one active leaf queue (created by dispatch_queue_create, targeted by nobody) may be moved under another
	// queue while it is in use; nobody blocks on it and its items do not block (the wait-for order of the trees
	// would otherwise change under the program's feet)
	if (G->retarget && g_chance(G->retarget, 6)) {
		// two thirds of those runs aim most of their traffic at the moved queues and their new targets, and move up to
		// three queues (the window in which a retarget can go wrong opens once per moved queue)
		int focus = g_chance(2, 3), nmove = focus ? g_range(1, 3) : 1;
		bool is_target[QMAX] = { false };
		for (int m = 0; m < nmove; m++) {
			int rc[QMAX], nr = 0;
			for (int i = 0; i < nq; i++) {
				if ((Q[i].kind != QK_SERIAL && Q[i].kind != QK_CONC) || Q[i].target >= 0 || Q[i].inactive || Q[i].retarget_to >= 0 || is_target[i]) continue;
				int targeted = 0; for (int j = 0; j < nq; j++) if (Q[j].target == i) targeted = 1;
				if (!targeted) rc[nr++] = i;
			}
			if (!nr) break;
			int r = rc[g_n((uint32_t)nr)], tc[QMAX], nt = 0;
			for (int i = 0; i < nq; i++) if (i != r && Q[i].retarget_to < 0 && (Q[i].kind == QK_SERIAL || Q[i].kind == QK_CONC || Q[i].kind == QK_WORKLOOP) && Q[i].depth + 1 < G->max_qdepth) {
				int chain_active = 1; for (int j = i; j >= 0; j = Q[j].target) if (Q[j].inactive) chain_active = 0;   // the thread that retargets also blocks on the moved queue
				if (chain_active) tc[nt++] = i;
			}
			if (!nt) break;
			Q[r].retarget_to = tc[g_n((uint32_t)nt)]; is_target[Q[r].retarget_to] = true;
			for (int j = Q[r].retarget_to; j >= 0; j = Q[j].target) is_target[j] = true;
			if (focus) focus_q = r;
		}
	}
}

static int new_item(qop *op, int client, int parent, int apply_index) {
	if (nitems >= MAX_ITEMS) return -1;
	qitem *it = &IT[nitems];
	memset(it, 0, sizeof *it);
	it->id = nitems; it->op_idx = op->idx; it->q = op->q; it->opkind = op->kind;
	it->barrier = op_is_barrier(op->kind); it->sync = op_is_sync(op->kind);
	it->client = client; it->parent = parent; it->apply_index = apply_index; it->op = op; it->form = op->form;
	it->prev_on_queue = -1;
	return nitems++;
}

typedef struct gctx { int client; int parent_item; int from_q; int depth; int noblock; int min_tree; } gctx;

static int pick_queue(const gctx *c, bool blocking) {
	// blocking ops issued from an item may only target a later tree (acyclic wait-for graph)
	int cand[QMAX], n = 0;
	for (int i = 0; i < nq; i++) {
		if (blocking && c->from_q >= 0) {
			if (Q[i].kind == QK_GLOBAL) { /* never blocks on others */ }
			else if (G->main_tree && Q[0].kind == QK_MAIN && Q[i].tree == 0 && Q[c->from_q].tree != 0) { /* main-queue tree: its items never block */ }
			else if (Q[i].tree <= c->min_tree) continue;
		}
		if (blocking && Q[i].kind == QK_MAIN && c->from_q >= 0 && !G->main_tree) continue;
		if (blocking && Q[i].retarget_to >= 0) continue;   // (synchronous submissions to it are placed explicitly, behind the retarget)
		cand[n++] = i;
	}
	if (!n) return -1;
	if (G->single_queue && c->from_q < 0) return 0;
	if (focus_q >= 0 && g_chance(3, 5)) {
		int mv[QMAX], nm = 0; for (int i = 0; i < nq; i++) if (Q[i].retarget_to >= 0) mv[nm++] = i;
		int f = mv[g_n((uint32_t)nm)], want = g_chance(3, 5) ? f : Q[f].retarget_to;
		for (int i = 0; i < n; i++) if (cand[i] == want) return want;
	}
	return cand[g_n((uint32_t)n)];
}

static void gen_ops(qop **out, int *nout, int count, gctx c);

static void gen_body(qop *op, gctx c) {
	int bodies[B_N], nb = 0;
	for (int b = 0; b < B_N; b++) if (G->bodymask & (1u << b)) {
		if (b == B_NEST && (c.depth >= G->nest_depth || !g_chance(G->nest_pct, 100))) continue;
		if (b == B_WAIT_LATER) continue;   // placed explicitly by the pool-blocker shape
		bodies[nb++] = b;
	}
	op->body = nb ? bodies[g_n((uint32_t)nb)] : B_EMPTY;
	if (focus_q >= 0 && op->body != B_NEST && g_chance(1, 2)) {
		// focused runs: the new targets of the moved queues are busy for a while with each item (an item of a moved
		// queue that runs outside its new hierarchy then has something to overlap with)
		for (int i = 0; i < nq; i++) if (Q[i].retarget_to >= 0) for (int j = Q[i].retarget_to; j >= 0; j = Q[j].target) if (j == op->q) op->body = B_SLEEP;
	}
	op->body_arg = op->body == B_YIELD ? g_range(1, 4) : op->body == B_SLEEP ? g_range(1, 300) : 0;
	if (op->body == B_NEST) {
		gctx cc = c; cc.parent_item = op->item; cc.from_q = op->q; cc.depth = c.depth + 1; cc.client = -1;
		if (G->main_tree && Q[0].kind == QK_MAIN && Q[op->q].tree == 0) cc.noblock = 1;   // items of the main queue's tree never block
		if (Q[op->q].retarget_to >= 0) cc.noblock = 1;   // nor do the items of a queue that is retargeted during the run
		// items reached through a blocking submission keep their submitter's ordering constraint
		cc.min_tree = Q[op->q].tree;
		if (op_is_sync(op->kind) && c.min_tree > cc.min_tree) cc.min_tree = c.min_tree;
		gen_ops(&op->child, &op->nchild, g_range(1, 3), cc);
	}
}

static bool gen_one(qop *op, gctx c) {
	memset(op, 0, sizeof *op);
	op->idx = next_op_idx++;
	op->wait_item = -1; op->item = -1;
	int kinds[OP_N], nk = 0;
	for (int k = 0; k < OP_N; k++) if ((G->opmask & (1u << k)) || (k == OP_PAUSE && focus_q >= 0)) {   // (pauses let the moved queue run empty between submissions)
		if (G->gate && op_is_sync(k)) continue;
		if (c.noblock && op_is_sync(k)) continue;
		if (k == OP_SUSPEND && (c.noblock || c.depth > 1)) continue;
		if (k == OP_ACTIVATE) continue;   // placed explicitly
		kinds[nk++] = k;
	}
	if (!nk) return false;
	op->kind = kinds[g_n((uint32_t)nk)];
	if (G->apply_weight && (G->opmask & (1u << OP_APPLY)) && !c.noblock && !G->gate && g_chance(G->apply_weight, 100)) op->kind = OP_APPLY;
	op->form = (int)g_n(2);
	if ((op->kind == OP_BARRIER_ASYNC || op->kind == OP_BARRIER_SYNC || op->kind == OP_BARRIER_AAW) && G->blockobj && g_chance(1, 3)) op->form = 2;
	// any block-form submission may instead carry a block object made with dispatch_block_create(0, ...): same
	// meaning, but the library takes its private-data paths
	else if (op->form == 1 && !G->no_privblocks && op->kind != OP_APPLY && op->kind != OP_SUSPEND && op->kind != OP_PAUSE && g_chance(1, 5)) op->form = 3;
	if (op->kind == OP_PAUSE) { op->depth = g_range(1, 200); return true; }
	if (op->kind == OP_SUSPEND) {
		// candidates: non-global, non-main, non-workloop queues
		int cand[QMAX], n = 0;
		for (int i = 0; i < nq; i++) if ((Q[i].kind == QK_SERIAL || Q[i].kind == QK_CONC) && (!Q[i].inactive || G->suspend_inactive) && Q[i].retarget_to < 0) cand[n++] = i;
		if (!n) { op->kind = OP_PAUSE; op->depth = 1; return true; }
		op->q = (c.from_q >= 0 && (Q[c.from_q].kind == QK_SERIAL || Q[c.from_q].kind == QK_CONC) && !Q[c.from_q].inactive && Q[c.from_q].retarget_to < 0 && g_chance(70, 100)) ? c.from_q : cand[g_n((uint32_t)n)];
		op->depth = g_chance(G->suspend_depth_max >= 64 ? 35 : 15, 100) ? g_range(1, G->suspend_depth_max) : g_range(1, 3);
		// the resumes may come in two instalments; what is still outstanding in between is biased to the values at
		// which the inline counter and the side counter trade (the counter moves in halves of 64)
		op->split = 0;
		if (op->depth >= 2 && g_chance(1, 2)) {
			static const int edge[] = { 1, 31, 32, 33, 63, 64, 65, 96 };
			int rem = g_chance(1, 2) ? edge[g_n(8)] : g_range(1, op->depth - 1);
			if (rem >= op->depth) rem = g_range(1, op->depth - 1);
			op->split = op->depth - rem;
		}
		op->body_arg = (int)g_n(3);   // 0: resume inline, 1: resume from an async item on a global queue, 2: inline
		gctx cc = c; cc.noblock = 1; cc.depth = c.depth + 1;
		gen_ops(&op->child, &op->nchild, g_range(0, 3), cc);   // ops executed while suspended
		return true;
	}
	bool blocking = op_is_sync(op->kind);
	op->q = pick_queue(&c, blocking);
	if (op->q < 0) { op->q = 0; op->kind = OP_PAUSE; op->depth = 1; return true; }
	if (Q[op->q].kind == QK_WORKLOOP && (op->kind == OP_SYNC || op->kind == OP_BARRIER_SYNC || op->kind == OP_APPLY)) op->kind = OP_AAW;
	if (Q[op->q].kind == QK_MAIN && op->kind == OP_APPLY) op->kind = OP_ASYNC;
	if (Q[op->q].retarget_to >= 0 && op->kind == OP_APPLY) op->kind = OP_ASYNC;
	if (op->kind == OP_APPLY) {
		int ncpu = sim_k.ncpu;
		int ns[] = { 0, 1, 2, 3, 5, 9, ncpu > 1 ? ncpu - 1 : 1, ncpu, ncpu + 1, 17, 64, 1000 };
		op->apply_n = ns[g_n(G->apply_big ? 12 : 9)];
		if (op->apply_n > G->apply_max) op->apply_n = G->apply_max;
		if (op->apply_n > MAX_ITEMS - nitems - 100) op->apply_n = 2;
		op->apply_auto = Q[op->q].kind == QK_GLOBAL && g_chance(1, 2);
		op->item = nitems;
		for (int i = 0; i < op->apply_n; i++) if (new_item(op, c.client, c.parent_item, i) < 0) return false;
		if (!op->apply_n) op->item = -1;
		op->body = g_chance(1, 2) ? B_YIELD : B_EMPTY; op->body_arg = 1;
		if (op->apply_n > 0 && c.depth < G->nest_depth && g_chance(G->nest_pct, 100)) {
			// nested operations are issued by iteration 0 only (each operation owns its items)
			op->body = B_NEST;
			gctx cc = c; cc.parent_item = op->item; cc.from_q = op->q; cc.depth = c.depth + 1; cc.client = -1;
			cc.min_tree = Q[op->q].tree; if (c.min_tree > cc.min_tree) cc.min_tree = c.min_tree;
			if (G->main_tree && Q[0].kind == QK_MAIN && Q[op->q].tree == 0) cc.noblock = 1;
			gen_ops(&op->child, &op->nchild, g_range(1, 2), cc);
		}
		return true;
	}
	op->item = new_item(op, c.client, c.parent_item, -1);
	if (op->item < 0) return false;
	// a quarter of the submissions have their thread descheduled somewhere inside the call
	// (half of them early in the call, where the item is published: tail exchange, head store, state update)
	if (g_chance(1, 4)) { op->arm_rel = g_chance(1, 2) ? g_range(1, 12) : g_range(1, 45); op->arm_code = g_range(1, 4); }
	// a synchronous submission to a queue that is still inactive when the program starts: often descheduled at its very
	// first steps, i.e. between what it reads about the queue and the moment it acts on it, while the queue is being
	// configured and activated by its owner
	if (op_is_sync(op->kind) && Q[op->q].inactive && g_chance(1, 2)) { op->arm_rel = g_range(1, 3); op->arm_code = g_range(2, 4); }
	gen_body(op, c);
	return true;
}

static void gen_ops(qop **out, int *nout, int count, gctx c) {
	qop *ops = xzalloc(sizeof(qop) * (size_t)(count ? count : 1));
	int n = 0;
	for (int i = 0; i < count; i++) if (gen_one(&ops[n], c)) n++;
	*out = ops; *nout = n;
}

static void gen_program(void) {
	gen_queues();
	nclients = g_range(G->min_clients, G->max_clients);
	if (nclients > MAX_CLIENTS) nclients = MAX_CLIENTS;
	IT = xzalloc(sizeof(qitem) * MAX_ITEMS);
	for (int c = 0; c < nclients; c++) {
		gctx gc = { .client = c, .parent_item = -1, .from_q = -1, .depth = 0, .noblock = 0, .min_tree = -1 };
		int count = g_range(G->min_ops, G->max_ops);
		if (G->pingpong && c == 0) {
			// one client alternating async and sync on one queue that keeps flipping empty <-> non-empty
			qop *ops = xzalloc(sizeof(qop) * (size_t)count);
			int n = 0;
			for (int i = 0; i < count; i++) {
				qop *op = &ops[n]; memset(op, 0, sizeof *op);
				op->idx = next_op_idx++; op->wait_item = -1;
				op->kind = (i & 1) ? (g_chance(1, 2) ? OP_SYNC : OP_BARRIER_SYNC) : (g_chance(3, 4) ? OP_ASYNC : OP_BARRIER_ASYNC);
				if (G->gate) op->kind = OP_ASYNC;
				op->q = 0; op->form = (int)g_n(2);
				if (Q[0].kind == QK_WORKLOOP && op_is_sync(op->kind)) op->kind = OP_AAW;
				op->item = new_item(op, c, -1, -1);
				if (op->item < 0) break;
				op->body = g_chance(1, 3) ? B_YIELD : B_EMPTY; op->body_arg = 1;
				n++;
			}
			client_ops[c] = ops; client_nops[c] = n;
			continue;
		}
		gen_ops(&client_ops[c], &client_nops[c], count, gc);
	}
	// activation of initially inactive queues: one designated client activates each of them
	// (after its own program, which then must not block on that queue: enforced by making the
	// activation the first op of a client that is otherwise unconstrained)
	for (int i = 0; i < nq; i++) if (Q[i].inactive) {
		int c = (int)g_n((uint32_t)nclients);
		qop *ops = xzalloc(sizeof(qop) * (size_t)(client_nops[c] + 1));
		// position: after a random number of leading non-blocking ops
		int pos = 0;
		while (pos < client_nops[c] && !op_is_sync(client_ops[c][pos].kind) && client_ops[c][pos].kind != OP_SUSPEND && g_chance(2, 3)) pos++;
		memcpy(ops, client_ops[c], sizeof(qop) * (size_t)pos);
		qop *a = &ops[pos]; memset(a, 0, sizeof *a);
		a->idx = -1; /* never disabled: dropping an activation would make the program illegal */
		a->kind = OP_ACTIVATE; a->q = i; a->wait_item = -1; a->item = -1;
		memcpy(ops + pos + 1, client_ops[c] + pos, sizeof(qop) * (size_t)(client_nops[c] - pos));
		client_ops[c] = ops; client_nops[c]++;
	}
	// the retarget itself: somewhere in the middle of one client's program (can be switched off like any operation)
	for (int i = 0; i < nq; i++) if (Q[i].retarget_to >= 0) {
		int c = (int)g_n((uint32_t)nclients);
		// ... followed, in the same thread, by up to two synchronous submissions to the moved queue. Only there:
		// a synchronous submission that is in flight *while* dispatch_set_target_queue is called walks a target chain
		// that changes under it (observed: hang or crash; legacy behaviour outside every listed property, the
		// replay is kept as findings/OBS-legacy-retarget-racing-sync-in-flight.replay), whereas one issued after the
		// call has returned queues up behind the retarget and is well defined.
		int nsync = (int)g_n(3);
		// in the focused runs often: the queue is busy when its target is changed (the change is then applied by a
		// barrier item of the queue itself, usually its last item) and the same thread submits to it again right
		// behind the call
		int npre = focus_q >= 0 && g_chance(2, 3) ? 1 : 0, npost = focus_q >= 0 ? (int)g_n(3) : 0;
		qop *ops = xzalloc(sizeof(qop) * (size_t)(client_nops[c] + 1 + nsync + npre + npost));
		// (behind this client's activations: everything in front of an activation must be non-blocking)
		int minpos = 0; for (int k = 0; k < client_nops[c]; k++) if (client_ops[c][k].kind == OP_ACTIVATE) minpos = k + 1;
		int pos = minpos + (int)g_n((uint32_t)(client_nops[c] - minpos) + 1);
		memcpy(ops, client_ops[c], sizeof(qop) * (size_t)pos);
		int n = pos;
		for (int k = 0; k < npre + 1 + npost + nsync; k++) {
			qop *y = &ops[n]; memset(y, 0, sizeof *y);
			y->idx = next_op_idx++; y->q = i; y->wait_item = -1; y->item = -1;
			if (k == npre) { y->kind = OP_RETARGET; n++; continue; }
			if (k < npre || k <= npre + npost) { y->kind = g_chance(3, 4) ? OP_ASYNC : OP_BARRIER_ASYNC; y->body = k < npre ? B_YIELD : (g_chance(1, 2) ? B_SLEEP : g_chance(1, 2) ? B_YIELD : B_EMPTY); y->body_arg = y->body == B_SLEEP ? g_range(20, 300) : g_range(1, 4); }   // (a long body: if it runs outside its hierarchy, something of that hierarchy will start meanwhile)
			else { static const int sk[] = { OP_SYNC, OP_BARRIER_SYNC, OP_AAW, OP_BARRIER_AAW }; y->kind = sk[g_n(4)]; y->body = g_chance(1, 2) ? B_YIELD : B_EMPTY; y->body_arg = 1; }
			y->form = (int)g_n(2);
			y->item = new_item(y, c, -1, -1);
			if (y->item < 0) break;
			n++;
		}
		memcpy(ops + n, client_ops[c] + pos, sizeof(qop) * (size_t)(client_nops[c] - pos));
		client_ops[c] = ops; client_nops[c] += n - pos;
	}
	if (G->poolblock) {
		// every pool thread blocked inside an item that waits for a later item of the same global queue
		int gq = -1;
		for (int i = 0; i < nq; i++) if (Q[i].kind == QK_GLOBAL) { gq = i; break; }
		if (gq >= 0) {
			int nb = sim_k.ncpu + g_range(0, 2);
			if (nb > 8) nb = 8;
			qop *ops = xzalloc(sizeof(qop) * (size_t)(client_nops[0] + 2 * nb));
			int n = 0;
			int first_waiter = nitems;
			for (int i = 0; i < nb; i++) {
				qop *op = &ops[n++]; memset(op, 0, sizeof *op);
				op->idx = next_op_idx++; op->kind = OP_ASYNC; op->q = gq; op->form = (int)g_n(2);
				op->body = B_WAIT_LATER; op->item = new_item(op, 0, -1, -1);
			}
			for (int i = 0; i < nb; i++) {
				qop *op = &ops[n++]; memset(op, 0, sizeof *op);
				op->idx = next_op_idx++; op->kind = OP_ASYNC; op->q = gq; op->form = (int)g_n(2);
				op->body = B_EMPTY; op->wait_item = -1; op->item = new_item(op, 0, -1, -1);
				ops[i].wait_item = op->item;
			}
			(void)first_waiter;
			memcpy(ops + n, client_ops[0], sizeof(qop) * (size_t)client_nops[0]);
			client_ops[0] = ops; client_nops[0] += n;
		}
	}
}

/* ------------------------------------------------------------------ rendering */
static void render_ops(qop *ops, int n, int ind) {
	for (int i = 0; i < n; i++) {
		qop *op = &ops[i];
		if (op->idx >= 0 && !op_on(op->idx)) continue;
		h_sample("%*s#%d %s", ind, "", op->idx, opnames[op->kind]);
		if (op->kind == OP_PAUSE) h_sample(" %dus", op->depth);
		else if (op->kind == OP_SUSPEND) { h_sample("(q%d) x%d resume=%s", op->q, op->depth, op->body_arg == 1 ? "async" : "inline"); if (op->split) h_sample(" (%d of them first)", op->split); }
		else if (op->kind == OP_ACTIVATE) h_sample("(q%d)", op->q);
		else if (op->kind == OP_RETARGET) h_sample("(q%d -> q%d)", op->q, Q[op->q].retarget_to);
		else if (op->kind == OP_APPLY) h_sample("(%d, %s%d) items %d..%s", op->apply_n, op->apply_auto ? "AUTO/q" : "q", op->q, op->item, op->body == B_NEST ? " body=nest(iteration 0)" : "");
		else h_sample("%s(q%d) item %d body=%s%s", op->form == 2 ? "[BARRIER block object via the plain call]" : op->form == 3 ? "[block object]" : op->form ? "" : "_f", op->q, op->item,
			op->body == B_EMPTY ? "empty" : op->body == B_YIELD ? "yield" : op->body == B_SLEEP ? "sleep" : op->body == B_NEST ? "nest" : "wait-later",
			"");
		if (op->body == B_WAIT_LATER) h_sample("(item %d)", op->wait_item);
		h_sample("\n");
		if (op->nchild) render_ops(op->child, op->nchild, ind + 2);
	}
}
static void render_program(void) {
	h_sample("queues:");
	for (int i = 0; i < nq; i++) {
		h_sample(" q%d=%s", i, qknames[Q[i].kind]);
		if (Q[i].target >= 0) h_sample("->q%d", Q[i].target);
		if (Q[i].kind == QK_GLOBAL) h_sample("(prio %d%s)", Q[i].gprio, Q[i].overcommit ? ", overcommit" : "");
		if (Q[i].qosattr) h_sample("[qos %d%+d]", Q[i].qosattr, Q[i].relpri);
		if (Q[i].inactive) h_sample("[inactive]");
		if (Q[i].retarget_to >= 0) h_sample("[retargeted to q%d during the run]", Q[i].retarget_to);
		if (Q[i].width) h_sample("[width %d]", Q[i].width);
	}
	h_sample("\n");
	for (int c = 0; c < nclients; c++) { h_sample("client %d:\n", c); render_ops(client_ops[c], client_nops[c], 1); }
}

/* ------------------------------------------------------------------ queue creation */
static void create_queues(void) {
	for (int i = 0; i < nq; i++) {
		qnode *n = &Q[i];
		dispatch_queue_t tq = n->target >= 0 ? Q[n->target].q : NULL;
		switch (n->kind) {
		case QK_GLOBAL: n->q = dispatch_get_global_queue(n->gprio, n->overcommit ? 2 /* DISPATCH_QUEUE_OVERCOMMIT */ : 0); break;
		case QK_MAIN: n->q = dispatch_get_main_queue(); break;
		case QK_WORKLOOP:
			// half of the workloops are created inactive, configured and activated at once (submitting to an inactive
			// workloop is undefined, unlike queues: workloop_private.h)
			if (g_chance(1, 2)) {
				dispatch_workloop_t w = dispatch_workloop_create_inactive(n->label);
				if (g_chance(1, 2)) dispatch_workloop_set_autorelease_frequency(w, g_chance(1, 2) ? DISPATCH_AUTORELEASE_FREQUENCY_WORK_ITEM : DISPATCH_AUTORELEASE_FREQUENCY_NEVER);
				dispatch_activate((dispatch_queue_t)w);
				n->q = (dispatch_queue_t)w;
			} else n->q = (dispatch_queue_t)dispatch_workloop_create(n->label);
			break;
		default: {
			dispatch_queue_attr_t a = n->kind == QK_CONC ? DISPATCH_QUEUE_CONCURRENT : DISPATCH_QUEUE_SERIAL;
			if (n->inactive) a = dispatch_queue_attr_make_initially_inactive(a);
			if (n->qosattr) { static const unsigned cls[6] = { 0, QOS_CLASS_BACKGROUND, QOS_CLASS_UTILITY, QOS_CLASS_DEFAULT, QOS_CLASS_USER_INITIATED, QOS_CLASS_USER_INTERACTIVE }; a = dispatch_queue_attr_make_with_qos_class(a, cls[n->qosattr], n->relpri); }
			if (n->inactive && tq && g_chance(1, 2)) {
				// retarget while inactive: created on the default root, then moved
				n->q = dispatch_queue_create(n->label, a);
				// ... at once, or by the thread that activates it, right before it does (other threads may be inside a
				// synchronous submission to the still inactive queue by then)
				// (not where inactive queues are also suspended dozens deep: dispatch_set_target_queue documents a client
				// crash for that combination)
				if (G->suspend_inactive || g_chance(1, 4)) dispatch_set_target_queue(n->q, tq); else n->late_tq = tq;
			} else if (n->retarget_to >= 0) {
				n->q = dispatch_queue_create(n->label, a);   // only such queues may change their target once active
			} else {
				n->q = dispatch_queue_create_with_target(n->label, a, tq);
			}
			if (n->width) dispatch_queue_set_width(n->q, n->width);
			break; }
		}
		if (n->kind != QK_GLOBAL && n->kind != QK_MAIN) sim_watch(n->q, 128);
		if (n->inactive) RES.counters[QC_INACTIVE]++;
		if (n->kind == QK_WORKLOOP) RES.counters[QC_WORKLOOPS] = 1;
		if (n->kind == QK_MAIN) RES.counters[QC_MAINQ] = G->dispatch_main ? 2 : 1;   /* summed: runs + again for dispatch_main runs */
		RES.counters[QC_HIER_DEPTH_SUM] += n->depth;
		if (G->specific && n->kind != QK_GLOBAL && n->kind != QK_MAIN && n->kind != QK_WORKLOOP) {
			for (int k = 0; k < 4; k++) if (g_chance(1, 3)) {
				n->spec[k] = (void *)(uintptr_t)(0x1000 + i * 16 + k);
				// either here, one after the other, or by the client threads at once (spec_by_clients)
				if (!spec_by_clients) dispatch_queue_set_specific(n->q, &keys[k], n->spec[k], NULL);
				else n->spec_dup[k] = g_chance(1, 3);
			} else if (spec_by_clients && g_chance(1, 4)) n->spec_temp[k] = 1;
		}
	}
}

/* ------------------------------------------------------------------ execution */
static void run_ops(qop *ops, int n, int client, qitem *from);
static void item_body(qitem *it);

static void item_fn(void *ctx) { item_body((qitem *)ctx); }
static void apply_fn(void *ctx, size_t i) {
	qop *op = ctx;
	if (i >= (size_t)op->apply_n) h_viol("apply-index", "dispatch_apply op #%d on q%d invoked index %zu >= n=%d", op->idx, op->q, i, op->apply_n);
	item_body(&IT[op->item + (int)i]);
}

static uint64_t pay(uint64_t seed, int id, int k) { uint64_t x = seed ^ ((uint64_t)id << 20) ^ (uint64_t)k; x *= 0x9e3779b97f4a7c15ull; return x ^ (x >> 29); }

static void check_specific(qitem *it) {
	if (!(G->oracles & O_SPECIFIC)) return;
	if (it->op->apply_auto) return;   // DISPATCH_APPLY_AUTO picks a root queue of its own choosing
	if (Q[it->q].retarget_to >= 0) {
		// a queue that changes its target during the run: an item submitted after dispatch_set_target_queue returned
		// runs behind the change, i.e. inside the new chain (keys, asserts); earlier ones are only asserted on their queue
		dispatch_assert_queue(Q[it->q].q); RES.counters[QC_ASSERTS]++;
		if (it->dom_new_chain) {
			for (int q = Q[it->q].retarget_to; q >= 0; q = Q[q].target) { dispatch_assert_queue(Q[q].q); RES.counters[QC_ASSERTS]++; }
			for (int k = 0; k < 4; k++) {
				void *want = Q[it->q].spec[k];
				for (int q = Q[it->q].retarget_to; q >= 0 && !want; q = Q[q].target) if (Q[q].spec[k]) want = Q[q].spec[k];
				void *got = dispatch_get_specific(&keys[k]);
				RES.counters[QC_SPECIFIC_CHECKS]++;
				if (got != want) h_viol("get-specific", "item %d (op #%d %s on q%d, submitted after q%d was moved under q%d): dispatch_get_specific(key%d)=%p, model says %p", it->id, it->op_idx, opnames[it->opkind], it->q, it->q, Q[it->q].retarget_to, k, got, want);
			}
		}
		return;
	}
	for (int k = 0; k < 4; k++) {
		void *want = NULL;
		for (int q = it->q; q >= 0; q = Q[q].target) if (Q[q].spec[k]) { want = Q[q].spec[k]; break; }
		void *got = dispatch_get_specific(&keys[k]);
		RES.counters[QC_SPECIFIC_CHECKS]++;
		if (got != want)
			h_viol("get-specific", "item %d (op #%d %s on q%d): dispatch_get_specific(key%d)=%p, model says %p", it->id, it->op_idx, opnames[it->opkind], it->q, k, got, want);
	}
	// the current queue is the one the item was submitted to, whatever thread runs it
	if (Q[it->q].kind == QK_SERIAL || Q[it->q].kind == QK_CONC || Q[it->q].kind == QK_WORKLOOP) {
		const char *cur = dispatch_queue_get_label(DISPATCH_CURRENT_QUEUE_LABEL);
		if (!cur || strcmp(cur, Q[it->q].label))
			h_viol("current-label", "item %d (op #%d %s on q%d): the current queue's label is '%s', not '%s'", it->id, it->op_idx, opnames[it->opkind], it->q, cur ? cur : "(null)", Q[it->q].label);
	}
	// a barrier item of a concurrent queue and any item of a serial queue run "as a barrier" on their queue
	if ((Q[it->q].kind == QK_SERIAL || (Q[it->q].kind == QK_CONC && it->barrier)) && it->opkind != OP_APPLY) { dispatch_assert_queue_barrier(Q[it->q].q); RES.counters[QC_ASSERTS]++; }
	for (int q = it->q; q >= 0; q = Q[q].target) {
		dispatch_assert_queue(Q[q].q); RES.counters[QC_ASSERTS]++;
		for (int k = 0; k < 4; k++) if (Q[q].spec[k] && dispatch_queue_get_specific(Q[q].q, &keys[k]) != Q[q].spec[k])
			h_viol("get-specific", "dispatch_queue_get_specific(q%d, key%d) does not return the value that was set", q, k);
	}
	// a plain dispatch_sync runs on the calling thread: the submitting item's queues are still asserted
	if ((it->opkind == OP_SYNC || it->opkind == OP_BARRIER_SYNC) && it->parent >= 0 && Q[it->q].kind != QK_MAIN)
		for (int q = IT[it->parent].q; q >= 0; q = Q[q].target) if (Q[q].kind != QK_GLOBAL) { dispatch_assert_queue(Q[q].q); RES.counters[QC_ASSERTS]++; }
	// queues outside both chains must be refused by dispatch_assert_queue_not's positive form
	for (int q = 0; q < nq; q++) {
		bool in = false;
		for (int c = it->q; c >= 0; c = Q[c].target) if (c == q) in = true;
		if (it->parent >= 0) for (int c = IT[it->parent].q; c >= 0; c = Q[c].target) if (c == q) in = true;
		for (int p = it->parent; p >= 0 && !in; p = IT[p].parent) for (int c = IT[p].q; c >= 0; c = Q[c].target) if (c == q) in = true;
		if (!in && Q[q].kind != QK_GLOBAL && Q[q].kind != QK_MAIN && it->client >= 0 && it->parent < 0 && !it->sync) { dispatch_assert_queue_not(Q[q].q); RES.counters[QC_ASSERTS]++; }
	}
}

static void item_begin(qitem *it) {
	qnode *qn = &Q[it->q];
	it->count++;
	if (it->count > 1)
		h_viol("exactly-once", "item %d (op #%d %s on q%d) invoked %d times", it->id, it->op_idx, opnames[it->opkind], it->q, it->count);
	if (!it->submitted)
		h_viol("exactly-once", "item %d (op #%d) ran without having been submitted", it->id, it->op_idx);
	it->start = h_stamp(); it->tid = sim_self_id();
	h_log("start item %d q%d", it->id, it->q);
	if (it->cksum != (it->payload[0] ^ it->payload[1] ^ it->payload[2]) || it->payload[0] != pay(RC.seed, it->id, 0))
		if (G->oracles & O_SYNCRET) h_viol("payload", "item %d saw an incomplete payload record", it->id);
	// C06 (a): initially inactive queue
	if ((G->oracles & O_SUSPEND) && qn->inactive && !qn->activated_call)
		h_viol("inactive-start", "item %d started on q%d before dispatch_activate was called", it->id, it->q);
	// C06 (b), (c): definitely suspended windows
	if ((G->oracles & O_SUSPEND) && qn->susp_ret_minus_res_call > 0 && !(it->opkind == OP_APPLY && it->apply_index > 0 && qn->kind == QK_SERIAL)) {   // (later iterations of an apply on a serial queue continue the one synchronous item that is already running)
		if (qn->window_onqueue)
			h_viol("suspended-start", "item %d started on q%d while it was suspended from one of its own items (suspends returned - resumes called = %d)", it->id, it->q, qn->susp_ret_minus_res_call);
		else if (qn->kind == QK_SERIAL && !(it->opkind == OP_APPLY && it->apply_index > 0)) {   // (the iterations of an apply on a serial queue are one synchronous item)
			qn->window_starts++; RES.counters[QC_SUSP_COMMITTED]++;
			if (qn->window_starts > 1)
				h_viol("suspended-start", "%d items started on serial q%d inside one suspended interval (at most the committed one may)", qn->window_starts, it->q);
		}
	}
	// C02: serial exclusion
	if ((G->oracles & (O_SERIAL | O_HIER)) && q_serialish(qn->kind) && qn->running > 0)
		h_viol("serial-overlap", "item %d started on %s q%d while item %d of the same queue was running", it->id, qknames[qn->kind], it->q, qn->last_item);
	// C04: barrier exclusion
	if ((G->oracles & O_BARRIER) && qn->kind == QK_CONC) {
		if (qn->running_barrier > 0)
			h_viol("barrier-overlap", "item %d started on concurrent q%d while barrier item %d was running", it->id, it->q, qn->last_item);
		if (it->barrier && qn->running > 0)
			h_viol("barrier-overlap", "barrier item %d started on concurrent q%d while %d other item(s) were running (last %d)", it->id, it->q, qn->running, qn->last_item);
	}
	// C04 / C05 over hierarchies: a queue below a concurrent queue takes part in it like a reader, so nothing that runs
	// through a concurrent ancestor overlaps a barrier item of that ancestor (items of moved queues are left out: their
	// chain is not fixed)
	if ((G->oracles & O_BARRIER) && qn->retarget_to < 0) {
		for (int a = qn->target; a >= 0; a = Q[a].target) if (Q[a].kind == QK_CONC && Q[a].running_barrier > 0)
			h_viol("barrier-overlap", "item %d (op #%d %s on q%d) started while barrier item %d of concurrent q%d, which q%d runs through, was running", it->id, it->op_idx, opnames[it->opkind], it->q, Q[a].last_item, a, it->q);
		if (it->barrier && qn->kind == QK_CONC && qn->through_running > 0)
			h_viol("barrier-overlap", "barrier item %d started on concurrent q%d while %d item(s) of queues that run through it were running", it->id, it->q, qn->through_running);
	}
	if (qn->retarget_to < 0) for (int a = qn->target; a >= 0; a = Q[a].target) Q[a].through_running++;
	// a queue narrowed with dispatch_queue_set_width never has more *asynchronously run* items in flight than its
	// width: asynchronous items and the helper threads of dispatch_apply reserve width before they run. Synchronous
	// callers bring their own thread and are admitted beyond the width by design (_dq_state_is_sync_runnable), and so
	// is the thread that called dispatch_apply; neither is counted.
	it->holds_width = (it->opkind == OP_ASYNC || it->opkind == OP_BARRIER_ASYNC || it->opkind == OP_GROUP_ASYNC) ||
		(it->opkind == OP_APPLY && sim_self_id() != it->op->caller_tid);
	if (it->holds_width) {
		if (G->oracles & (O_BARRIER | O_HIER | O_ONCE))
			for (int q = it->q; q >= 0; q = Q[q].target) if (Q[q].kind == QK_CONC && Q[q].width && Q[q].width_running + 1 > Q[q].width)
				h_viol("width-exceeded", "item %d (op #%d %s on q%d) started while %d asynchronously run items were already in flight through concurrent q%d, whose width is %d", it->id, it->op_idx, opnames[it->opkind], it->q, Q[q].width_running, q, Q[q].width);
		for (int q = it->q; q >= 0; q = Q[q].target) if (Q[q].kind == QK_CONC && Q[q].width) Q[q].width_running++;
	}
	// C03: hierarchy exclusion
	if ((G->oracles & O_HIER) && it->dom >= 0 && Q[it->dom].dom_running > 0)
		h_viol("hierarchy-overlap", "item %d (q%d) started while item %d of the same hierarchy (bottom q%d, %s) was running", it->id, it->q, Q[it->dom].dom_last_item, it->dom, qknames[Q[it->dom].kind]);
	if (qn->kind == QK_CONC && !it->barrier && qn->running > 0) { if (qn->running + 1 > max_readers_overlap) max_readers_overlap = qn->running + 1; }
	it->prev_on_queue = qn->last_item;
	qn->running++; if (it->barrier) qn->running_barrier++;
	qn->last_item = it->id;
	if (it->dom >= 0) { Q[it->dom].dom_running++; Q[it->dom].dom_last_item = it->id; }
	check_specific(it);
}
static void item_end(qitem *it) {
	qnode *qn = &Q[it->q];
	if (it->holds_width) for (int q = it->q; q >= 0; q = Q[q].target) if (Q[q].kind == QK_CONC && Q[q].width) Q[q].width_running--;
	qn->running--; if (it->barrier) qn->running_barrier--;
	if (qn->retarget_to < 0) for (int a = qn->target; a >= 0; a = Q[a].target) Q[a].through_running--;
	if (it->dom >= 0) Q[it->dom].dom_running--;
	it->result = pay(RC.seed, it->id, 7); it->result_ck = ~it->result;
	it->end = h_stamp();
	h_log("end item %d", it->id);
	items_done++;
	sim_event_signal(&it->done_ev);
	h_progress();
}

static void item_body(qitem *it) {
	if (G->gate) { RES.counters[QC_GATE] = 1; sim_event_wait(&gate_ev, UINT64_MAX); }
	item_begin(it);
	qop *op = it->op;
	switch (op->body) {
	case B_YIELD: for (int i = 0; i < op->body_arg; i++) sim_point(); break;
	case B_SLEEP: sim_sleep_ns((uint64_t)op->body_arg * USEC); break;
	case B_NEST:
		if (op->kind == OP_APPLY && it->apply_index != 0) { sim_point(); break; }
		RES.counters[QC_NESTED] += op->nchild; run_ops(op->child, op->nchild, -1, it); break;
	case B_WAIT_LATER:
		if (op->wait_item >= 0 && !IT[op->wait_item].skipped) sim_event_wait(&IT[op->wait_item].done_ev, 3 * LIVENESS_NS);
		break;
	default: break;
	}
	// an item that runs on the main thread inside the main queue's drain may spin a nested run loop, which calls the
	// drain hook again: that call has to come back without running anything (the item is still in progress)
	if (G->use_main && !G->dispatch_main && sim_self_id() == 0 && ((uint64_t)it->id * 2654435761u + RC.seed) % 4 == 0) {
		h_log("item %d pumps a nested run loop turn", it->id);
		_dispatch_main_queue_callback_4CF(NULL);
	}
	sim_point();
	item_end(it);
}

static void prep_item(qitem *it) {
	it->payload[0] = pay(RC.seed, it->id, 0); it->payload[1] = pay(RC.seed, it->id, 1); it->payload[2] = pay(RC.seed, it->id, 2);
	it->cksum = it->payload[0] ^ it->payload[1] ^ it->payload[2];
	it->submitted = 1;
	// C03: the hierarchy the item belongs to is the one its queue was in when it was submitted
	qnode *qn = &Q[it->q];
	it->dom = qn->dom;
	if (qn->retarget_to >= 0 && qn->rt_call) {
		int nd = Q[qn->retarget_to].dom >= 0 ? Q[qn->retarget_to].dom : qn->dom;
		it->dom = qn->rt_ret ? nd : -2;   // submitted while dispatch_set_target_queue was in progress: either
		it->dom_new_chain = qn->rt_ret != 0;
	}
}

static void do_resumes_n(qop *op, int n) {
	qnode *qn = &Q[op->q];
	for (int i = 0; i < n; i++) {
		qn->susp_ret_minus_res_call--;
		if (qn->susp_ret_minus_res_call == 0) qn->window_open = 0;
		h_log("call resume q%d", op->q);
		dispatch_resume(qn->q);
		h_log("ret resume q%d", op->q);
		if (i + 1 < n && (i & 7) == 0) sim_point();
	}
	h_progress();
}
static void do_resumes(qop *op) { do_resumes_n(op, op->depth - op->split); }
static void resume_fn(void *ctx) { do_resumes((qop *)ctx); }

static void run_one(qop *op, int client, qitem *from) {
	qnode *qn = &Q[op->q];
	dispatch_queue_t q = qn->q;
	if (op->kind == OP_PAUSE) { sim_sleep_ns((uint64_t)op->depth * USEC); return; }
	if (op->kind == OP_RETARGET) {
		qn->rt_call = h_stamp();
		h_log("call set_target_queue q%d -> q%d", op->q, qn->retarget_to);
		dispatch_set_target_queue(q, Q[qn->retarget_to].q);
		qn->rt_ret = h_stamp();
		h_log("ret set_target_queue q%d", op->q);
		return;
	}
	if (op->kind == OP_ACTIVATE) {
		qn->activated_call = 1; qn->activate_call_stamp = h_stamp();
		if (qn->late_tq) { h_log("call set_target_queue (still inactive) q%d", op->q); dispatch_set_target_queue(q, qn->late_tq); sim_point(); }
		h_log("call activate q%d", op->q);
		dispatch_activate(q);
		h_log("ret activate q%d", op->q);
		return;
	}
	if (op->kind == OP_SUSPEND) {
		bool onq = from && from->q == op->q && (qn->kind == QK_SERIAL || (qn->kind == QK_CONC && from->barrier));
		for (int i = 0; i < op->depth; i++) {
			h_log("call suspend q%d", op->q);
			dispatch_suspend(q);
			RES.counters[QC_SUSPENDS]++;
			qn->susp_ret_minus_res_call++;
			if (qn->susp_ret_minus_res_call == 1) {
				qn->window_open = 1; qn->window_onqueue = onq; qn->window_starts = 0; qn->window_open_stamp = h_stamp();
				RES.counters[QC_SUSP_WINDOWS]++;
			}
			h_log("ret suspend q%d D=%d onq=%d", op->q, qn->susp_ret_minus_res_call, onq);
			if (i + 1 < op->depth && (i & 7) == 0) sim_point();
		}
		if (op->split) { do_resumes_n(op, op->split); sim_sleep_ns((uint64_t)(20 + 10 * (op->split & 7)) * USEC); }   // still suspended: depth - split outstanding
		run_ops(op->child, op->nchild, client, from);
		if (op->body_arg == 1) dispatch_async_f(dispatch_get_global_queue(0, 0), op, resume_fn);
		else do_resumes(op);
		return;
	}
	if (op->kind == OP_APPLY) {
		uint64_t call = h_stamp();
		for (int i = 0; i < op->apply_n; i++) { prep_item(&IT[op->item + i]); IT[op->item + i].call = call; }
		op->caller_tid = sim_self_id();
		h_log("call apply #%d n=%d q%d", op->idx, op->apply_n, op->q);
		RES.counters[QC_SYNC_CALLS]++;
		if (op->apply_auto) q = DISPATCH_APPLY_AUTO;
		if (op->form) dispatch_apply((size_t)op->apply_n, q, ^(size_t i) { apply_fn(op, i); });
		else dispatch_apply_f((size_t)op->apply_n, q, op, apply_fn);
		uint64_t ret = h_stamp();
		h_log("ret apply #%d", op->idx);
		for (int i = 0; i < op->apply_n; i++) {
			qitem *it = &IT[op->item + i]; it->ret = ret; it->call = call;
			RES.counters[QC_APPLY_ITERS]++;
			if (it->count != 1) h_viol("apply-count", "dispatch_apply op #%d (n=%d, q%d) returned with index %d invoked %d times", op->idx, op->apply_n, op->q, i, it->count);
			if (!it->end) h_viol("apply-return", "dispatch_apply op #%d returned before index %d finished", op->idx, i);
		}
		return;
	}
	qitem *it = &IT[op->item];
	prep_item(it);
	if (it->barrier) RES.counters[QC_BARRIERS]++;
	it->call = h_stamp();
	h_log("call %s item %d q%d", opnames[op->kind], it->id, op->q);
	if (op->arm_rel) sim_arm_stall((uint32_t)op->arm_rel, op->arm_code);
	switch (op->kind) {
	case OP_ASYNC: case OP_BARRIER_ASYNC: case OP_GROUP_ASYNC: case OP_SYNC: case OP_BARRIER_SYNC: case OP_AAW: case OP_BARRIER_AAW: {
		// form 0: function; 1: block literal; 2: block object with DISPATCH_BLOCK_BARRIER through the plain call;
		// 3: block object without flags through the call of its kind
		dispatch_block_t bo = NULL;
		if (op->form == 2) bo = dispatch_block_create(DISPATCH_BLOCK_BARRIER, ^{ item_body(it); });
		else if (op->form == 3) {
			// flags that do not change what the block means (QoS handling only)
			static const dispatch_block_flags_t bf[] = { 0, 0, DISPATCH_BLOCK_ASSIGN_CURRENT, DISPATCH_BLOCK_INHERIT_QOS_CLASS, DISPATCH_BLOCK_ENFORCE_QOS_CLASS, DISPATCH_BLOCK_NO_QOS_CLASS, DISPATCH_BLOCK_DETACHED };
			bo = dispatch_block_create(bf[(RC.seed >> 17 ^ (uint64_t)it->id * 7) % 7], ^{ item_body(it); });
		}
		int k = op->kind;
		if (op->form == 2) k = k == OP_BARRIER_ASYNC ? OP_ASYNC : k == OP_BARRIER_SYNC ? OP_SYNC : OP_AAW;
		switch (k) {
		case OP_ASYNC: if (bo) dispatch_async(q, bo); else if (op->form) dispatch_async(q, ^{ item_body(it); }); else dispatch_async_f(q, it, item_fn); break;
		case OP_BARRIER_ASYNC: if (bo) dispatch_barrier_async(q, bo); else if (op->form) dispatch_barrier_async(q, ^{ item_body(it); }); else dispatch_barrier_async_f(q, it, item_fn); break;
		case OP_GROUP_ASYNC: if (bo) dispatch_group_async(grp, q, bo); else if (op->form) dispatch_group_async(grp, q, ^{ item_body(it); }); else dispatch_group_async_f(grp, q, it, item_fn); break;
		case OP_SYNC: if (bo) dispatch_sync(q, bo); else if (op->form) dispatch_sync(q, ^{ item_body(it); }); else dispatch_sync_f(q, it, item_fn); break;
		case OP_BARRIER_SYNC: if (bo) dispatch_barrier_sync(q, bo); else if (op->form) dispatch_barrier_sync(q, ^{ item_body(it); }); else dispatch_barrier_sync_f(q, it, item_fn); break;
		case OP_AAW: if (bo) dispatch_async_and_wait(q, bo); else if (op->form) dispatch_async_and_wait(q, ^{ item_body(it); }); else dispatch_async_and_wait_f(q, it, item_fn); break;
		case OP_BARRIER_AAW: if (bo) dispatch_barrier_async_and_wait(q, bo); else if (op->form) dispatch_barrier_async_and_wait(q, ^{ item_body(it); }); else dispatch_barrier_async_and_wait_f(q, it, item_fn); break;
		}
		if (bo) Block_release(bo);
		break; }
	}
	it->ret = h_stamp();
	h_log("ret %s item %d", opnames[op->kind], it->id);
	if (it->sync) {
		RES.counters[QC_SYNC_CALLS]++;
		if ((G->oracles & O_SYNCRET) && !it->end)
			h_viol("sync-return", "%s on q%d returned before its item %d %s", opnames[op->kind], op->q, it->id, it->start ? "finished" : "started");
		if ((G->oracles & O_SYNCRET) && (it->result != pay(RC.seed, it->id, 7) || it->result_ck != ~it->result))
			h_viol("payload", "%s returned but item %d's result record is incomplete", opnames[op->kind], it->id);
	}
}

static void mark_skipped(qop *ops, int n) {
	for (int i = 0; i < n; i++) {
		qop *op = &ops[i];
		if (op->kind == OP_APPLY) for (int k = 0; k < op->apply_n; k++) IT[op->item + k].skipped = 1;
		else if (op->item >= 0) IT[op->item].skipped = 1;
		mark_skipped(op->child, op->nchild);
	}
}
static void run_ops(qop *ops, int n, int client, qitem *from) {
	for (int i = 0; i < n; i++) {
		if (ops[i].idx >= 0 && !op_on(ops[i].idx)) continue;
		run_one(&ops[i], client, from);
		sim_point();
	}
}
static void premark(qop *ops, int n, bool off) {
	for (int i = 0; i < n; i++) {
		bool o = off || (ops[i].idx >= 0 && !op_on(ops[i].idx));
		if (o) { qop tmp = ops[i]; tmp.nchild = 0; mark_skipped(&tmp, 1); }
		premark(ops[i].child, ops[i].nchild, o);
	}
}

static void *client_main(void *arg) {
	int c = (int)(intptr_t)arg;
	if (spec_by_clients) {
		// the queue-specific values are set by all client threads at once, each its own keys (key k by client k mod n),
		// also on queues that have no specific data yet; nobody submits anything before every call has returned
		// some keys are set by two threads at once (same value), some are set by two threads and removed again by one of
		// them once every set has returned: such a key must then read as if it had never been set on that queue
		for (int i = 0; i < nq; i++) for (int k = 0; k < 4; k++) {
			bool mine = k % nclients == c, second = (k + 1) % nclients == c && nclients > 1;
			if (Q[i].spec[k] && (mine || (second && Q[i].spec_dup[k]))) { dispatch_queue_set_specific(Q[i].q, &keys[k], Q[i].spec[k], NULL); sim_point(); }
			if (Q[i].spec_temp[k] && (mine || second)) { dispatch_queue_set_specific(Q[i].q, &keys[k], (void *)(uintptr_t)(0x9000 + i * 16 + k), NULL); sim_point(); }
		}
		if (++spec_ready == nclients) sim_event_signal(&spec_ev);
		else sim_event_wait(&spec_ev, LIVENESS_NS);
		for (int i = 0; i < nq; i++) for (int k = 0; k < 4; k++) if (Q[i].spec_temp[k] && k % nclients == c) {
			dispatch_queue_set_specific(Q[i].q, &keys[k], NULL, NULL);
			if (dispatch_queue_get_specific(Q[i].q, &keys[k])) h_viol("get-specific", "dispatch_queue_get_specific(q%d, key%d) still returns a value after the key was removed (it had been set by two threads at once)", i, k);
		}
		if (++spec_ready2 == nclients) sim_event_signal(&spec_ev2);
		else sim_event_wait(&spec_ev2, LIVENESS_NS);
	}
	run_ops(client_ops[c], client_nops[c], c, NULL);
	clients_done++;
	h_log("client %d done", c);
	h_progress();
	return NULL;
}

/* ------------------------------------------------------------------ post-hoc order oracles */
static void check_orders(void) {
	// X submitted-before Y (ret(X) < call(Y)) on the same serial queue => end(X) < start(Y)
	// barrier rules on concurrent queues likewise
	for (int a = 0; a < nitems; a++) {
		qitem *x = &IT[a]; if (x->skipped || !x->count) continue;
		for (int b = 0; b < nitems; b++) {
			qitem *y = &IT[b]; if (a == b || y->skipped || !y->count || x->q != y->q) continue;
			if (!(x->ret && y->call && x->ret < y->call)) continue;   // X's submission returned before Y's began
			qnode *qn = &Q[x->q];
			RES.counters[QC_ORDER_PAIRS]++;
			if ((G->oracles & (O_SERIAL | O_HIER)) && q_serialish(qn->kind) && qn->kind != QK_WORKLOOP) {
				if (!(x->end < y->start))
					h_viol("serial-order", "q%d (%s): item %d (op #%d %s) was submitted before item %d (op #%d %s) [ret %lu < call %lu] but did not finish before it started [end %lu, start %lu]",
						x->q, qknames[qn->kind], x->id, x->op_idx, opnames[x->opkind], y->id, y->op_idx, opnames[y->opkind],
						(unsigned long)x->ret, (unsigned long)y->call, (unsigned long)x->end, (unsigned long)y->start);
			}
			if ((G->oracles & O_BARRIER) && qn->kind == QK_CONC && (x->barrier || y->barrier)) {
				if (!(x->end < y->start))
					h_viol("barrier-order", "concurrent q%d: %sitem %d (op #%d %s) was submitted before %sitem %d (op #%d %s) [ret %lu < call %lu] but did not finish before it started [end %lu, start %lu]",
						x->q, x->barrier ? "barrier " : "", x->id, x->op_idx, opnames[x->opkind], y->barrier ? "barrier " : "", y->id, y->op_idx, opnames[y->opkind],
						(unsigned long)x->ret, (unsigned long)y->call, (unsigned long)x->end, (unsigned long)y->start);
			}
		}
	}
	// apply on a serial(-bottomed) queue: iterations in index order
	if (G->oracles & (O_SERIAL | O_HIER))
		for (int a = 0; a + 1 < nitems; a++) {
			qitem *x = &IT[a], *y = &IT[a + 1];
			if (x->opkind != OP_APPLY || y->op != x->op || x->skipped) continue;
			if (Q[x->q].dom >= 0 && !(x->end < y->start))
				h_viol("apply-order", "dispatch_apply on serial-bottomed q%d: index %d did not finish before index %d started", x->q, x->apply_index, y->apply_index);
		}
}

/* ------------------------------------------------------------------ main control */
static bool all_done(void *ctx) {
	(void)ctx;
	if (clients_done < nclients) return false;
	for (int i = 0; i < nitems; i++) if (!IT[i].skipped && IT[i].submitted && !IT[i].end) return false;
	for (int i = 0; i < nq; i++) if (Q[i].susp_ret_minus_res_call > 0) return false;
	return true;
}
static void *mainq_runloop_unused;
static void drain_mainq(uint64_t span_ns) {
	// act as the CFRunLoop of the main thread: wait for the handle, acknowledge it, drain
	int fd = _dispatch_get_main_queue_handle_4CF();
	uint64_t t0 = sim_now();
	while (!mainq_stop && sim_now() - t0 < span_ns) {
		if (sim_io_wait_readable(fd, 20 * MSEC) == 0) {
			uint64_t v; sim_io_read(fd, &v, 8);
			_dispatch_main_queue_callback_4CF(NULL);
		}
	}
}

typedef struct ctl { sim_thread *cl[MAX_CLIENTS]; sim_event finished; } ctl;
static ctl CTL;
static void stuck_report(const char *clause) {
	char buf[300]; size_t o = 0; int shown = 0;
	for (int c = 0; c < nclients; c++) if (!sim_thread_done(CTL.cl[c]) && o + 40 < sizeof buf) o += (size_t)snprintf(buf + o, sizeof buf - o, "client %d blocked; ", c);
	for (int i = 0; i < nitems && shown < 6; i++) if (!IT[i].skipped && IT[i].submitted && !IT[i].end && o + 60 < sizeof buf) {
		o += (size_t)snprintf(buf + o, sizeof buf - o, "item %d (op #%d %s q%d) %s; ", i, IT[i].op_idx, opnames[IT[i].opkind], IT[i].q, IT[i].start ? "started, not finished" : "never started");
		shown++;
	}
	if (!o) snprintf(buf, sizeof buf, "suspension not balanced");
	h_stuck(clause, buf);
}
// controller: what the main thread does when it is not needed as a run loop
static void *controller(void *arg) {
	(void)arg;
	if (G->gate) {
		// asynchronous forms must return without any item having run
		for (int c = 0; c < nclients; c++)
			if (sim_join(CTL.cl[c], LIVENESS_NS)) {
				sim_set_fair();
				char b[128]; snprintf(b, sizeof b, "client %d did not return from an asynchronous submission while all items were held back", c);
				h_stuck("async-blocked", b);
			}
		h_log("gate opens");
		sim_event_signal(&gate_ev);
	}
	h_end_fault_phase(CTL.cl, nclients, 20 * NSEC);
	if (h_wait_until(all_done, NULL, LIVENESS_NS)) stuck_report("liveness");
	h_settle(20 * MSEC);
	for (int i = 0; i < nitems; i++) {
		qitem *it = &IT[i];
		if (it->skipped || !it->submitted) continue;
		if (it->count != 1) h_viol("exactly-once", "item %d (op #%d) invoked %d times", i, it->op_idx, it->count);
	}
	check_orders();
	mainq_stop = 1;
	sim_event_signal(&CTL.finished);
	return NULL;
}

static void finish_counters(void) {
	RES.counters[QC_ITEMS] = items_done;
	RES.counters[QC_OVERLAP_READERS] = max_readers_overlap >= 2;
	if (G->poolblock) RES.counters[QC_POOLBLOCK] = 1;
	RES.nontrivial = (sim_st.watched_preempts > 0 || sim_st.fired[K_STALL] > 0) && items_done >= 2;
}
static void *finisher(void *arg) {
	(void)arg;
	sim_event_wait(&CTL.finished, UINT64_MAX);
	finish_counters();
	h_done();
	return NULL;
}
void qgen_defaults(qgen *g) {
	memset(g, 0, sizeof *g);
	g->min_clients = 2; g->max_clients = 4; g->min_ops = 3; g->max_ops = 10;
	g->min_queues = 1; g->max_queues = 5; g->max_qdepth = 3; g->nest_depth = 2;
	g->opmask = (1u << OP_ASYNC) | (1u << OP_BARRIER_ASYNC) | (1u << OP_GROUP_ASYNC) | (1u << OP_SYNC) | (1u << OP_BARRIER_SYNC) | (1u << OP_AAW);
	g->bodymask = (1u << B_EMPTY) | (1u << B_YIELD) | (1u << B_NEST);
	g->qkindmask = (1u << QK_SERIAL) | (1u << QK_CONC) | (1u << QK_GLOBAL);
	g->nest_pct = 25; g->apply_max = 9; g->suspend_depth_max = 3;
}

void qprog_run(const qgen *g) {
	G = g;
	gen_program();
	for (int c = 0; c < nclients; c++) premark(client_ops[c], client_nops[c], false);
	spec_by_clients = G->specific && g_chance(1, 2);
	render_program();
	if (spec_by_clients) h_sample("(queue-specific values are set by the client threads concurrently)\n");
	if (G->use_main && G->dispatch_main) h_sample("(the main thread calls dispatch_main(): the main queue becomes an ordinary serial queue)\n");
	h_announce();
	create_queues();
	grp = dispatch_group_create();
	items_expected = nitems;
	for (int c = 0; c < nclients; c++) CTL.cl[c] = sim_spawn(client_main, (void *)(intptr_t)c, "client");
	sim_thread *ctlr = sim_spawn(controller, NULL, "controller");
	(void)ctlr; (void)mainq_runloop_unused;
	if (G->use_main && G->dispatch_main) {
		// the main thread leaves through dispatch_main() while the clients are already submitting: the main queue
		// turns into an ordinary serial queue (_dispatch_queue_cleanup2) and the rest of the run is judged from a
		// simulated thread
		sim_spawn(finisher, NULL, "finisher");
		for (int k = (int)(RC.seed >> 44 & 63); k > 0; k--) sim_point();
		h_log("main thread calls dispatch_main()");
		dispatch_main();
	}
	if (G->use_main) {
		while (!CTL.finished.set) drain_mainq(50 * MSEC);
	} else {
		sim_event_wait(&CTL.finished, UINT64_MAX);
	}
	finish_counters();
}

// C17: objects live while referenced or busy and are finalised exactly once (run mostly under ASan)
#include "h.h"
#include <fcntl.h>
#include <Block.h>

#if defined(DSIM_ASAN)
extern int __sanitizer_get_ownership(const volatile void *p);
#define OWNED(p) __sanitizer_get_ownership(p)
#else
#define OWNED(p) 0
#endif

#define MAXC 4
typedef struct fin { int count; uint64_t stamp; void *ctx_seen; int on_queue_ok; } fin;
static struct {
	int scenario, nclients, nitems_per, susp, nested, last_from_item, set_ctx_late, tq_kind;
	dispatch_queue_t root, q;            // q targets root
	dispatch_group_t grp; dispatch_source_t src; dispatch_semaphore_t sema;
	void *obj;                           // the object under test (for the ownership probe)
	fin f_obj, f_root;
	int items_started, items_ended, items_submitted; uint64_t last_item_end, last_release_ret;
	int releases_called, releases_returned;
	int keyd[3]; uint64_t keyd_stamp[3];
	int done, handler_runs, cancel_runs;
	char mark, ctx1, ctx2, k0, k1, k2;
	int expect_ctx2, susp_open, wait_for_others, arm_rel, arm_code, no_cancel;
	sim_event suspended_by_1, susp_item_done[MAXC]; int susp_item_sent[MAXC];
	sim_event go, handler_seen;
	int deep_susp;   // scenario 0: one client nests this many suspensions (64+: side counter) and resumes them all
	int set_width, q_conc;   // scenario 0: one client changes the width of the (concurrent) queue while others suspend and resume it
	int client_keys; char ck[MAXC]; int ckd[MAXC]; uint64_t ckd_stamp[MAXC];   // scenario 0: every client sets its own key first thing (a race on the first set_specific)
} L;

static void finalizer_obj(void *ctx) {
	L.f_obj.count++; L.f_obj.stamp = h_stamp(); L.f_obj.ctx_seen = ctx;
	h_log("finalizer of the object under test runs");
	if (L.f_obj.count > 1) h_viol("finalizer-twice", "the finalizer ran %d times", L.f_obj.count);
	if (L.items_ended < L.items_submitted || L.items_started > L.items_ended)
		h_viol("finalizer-early", "the finalizer ran while %d of %d submitted items had not finished", L.items_submitted - L.items_ended, L.items_submitted);
	if (L.releases_called < L.nclients)
		h_viol("finalizer-early", "the finalizer ran although only %d of %d references had been dropped", L.releases_called, L.nclients);
	if (ctx != (L.expect_ctx2 ? (void *)&L.ctx2 : (void *)&L.ctx1)) h_viol("finalizer-context", "the finalizer was given a context that was not the current one");
	if (L.tq_kind != 2 && dispatch_get_specific(&L.mark) != (void *)&L.mark) h_viol("finalizer-queue", "the finalizer did not run on the object's target queue");
	h_progress();
}
static void finalizer_root(void *ctx) {
	(void)ctx; L.f_root.count++; L.f_root.stamp = h_stamp();
	if (L.f_root.count > 1) h_viol("finalizer-twice", "the target queue's finalizer ran %d times", L.f_root.count);
	if (!L.f_obj.count && L.scenario != 1) h_viol("target-freed-early", "the target queue was finalised while the object targeting it still existed");
	h_progress();
}
static void key_dtor0(void *v) { (void)v; L.keyd[0]++; L.keyd_stamp[0] = h_stamp(); h_progress(); }
static void key_dtor1(void *v) { (void)v; L.keyd[1]++; L.keyd_stamp[1] = h_stamp(); h_progress(); }
static void key_dtor2(void *v) { (void)v; L.keyd[2]++; L.keyd_stamp[2] = h_stamp(); h_progress(); }
static void client_key_dtor(void *v) { int c = (int)((char *)v - L.ck); L.ckd[c]++; L.ckd_stamp[c] = h_stamp(); h_progress(); }

static void release_obj(const char *who) {
	// dropping the last reference of a suspended object is API misuse: the last release waits for open windows
	for (int k = 0; k < 100000 && L.releases_called == L.nclients - 1 && L.susp_open > 0; k++) sim_sleep_ns(5 * USEC);
	L.releases_called++;
	h_log("%s releases its reference (%d of %d)", who, L.releases_called, L.nclients);
	dispatch_release((dispatch_object_t)(struct dispatch_object_s *)L.obj);
	L.releases_returned++; L.last_release_ret = h_stamp();
}
static void item(void *ctx) {
	intptr_t flags = (intptr_t)ctx;
	L.items_started++;
	// using the object through the queue's own reference while running on it
	if (L.scenario == 0) { (void)dispatch_queue_get_label(L.q); if (!L.client_keys && dispatch_get_specific(&L.k0) != (void *)&L.k0) h_viol("specific-lost", "queue-specific value disappeared while an item of the queue was running"); }
	sim_point();
	if (flags & 16) for (int k = 0; k < 6; k++) sim_point();   // keeps the drainer inside this item while the next one is pushed
	if (flags & 1) { L.items_submitted++; dispatch_async_f(L.q, (void *)0, item); }   // submits a further item to the same queue
	if (flags & 2) { dispatch_suspend(L.q); sim_point(); dispatch_resume(L.q); sim_event_signal(&L.susp_item_done[(flags >> 8) & 7]); }
	if (flags & 4) release_obj("last item");   // a client's reference is dropped from inside the object's own item
	sim_point();
	L.items_ended++; L.last_item_end = h_stamp();
	h_progress();
}
static void *queue_client(void *arg) {
	int c = (int)(intptr_t)arg;
	sim_event_wait(&L.go, LIVENESS_NS);
	if (L.client_keys) {
		dispatch_queue_set_specific(L.q, &L.ck[c], &L.ck[c], client_key_dtor);
		if (dispatch_queue_get_specific(L.q, &L.ck[c]) != (void *)&L.ck[c]) h_viol("specific-lost", "dispatch_queue_get_specific does not return the value this thread has just set (several threads set their first keys at once)");
	}
	for (int i = 0; i < L.nitems_per; i++) {
		intptr_t fl = 0;
		if (L.nested && i == 0) fl |= 1;
		if (L.last_from_item && c == 0 && i == L.nitems_per - 2) fl |= 16;
		if (L.susp && i == 1) { fl |= 2 | ((intptr_t)c << 8); L.susp_item_sent[c] = 1; }
		if (L.last_from_item && c == 0 && i == L.nitems_per - 1) {
			fl |= 4;
			// the common "last item releases the queue" pattern: in half of the runs every other holder has let go
			// already, so the reference dropped inside the item is the last one while this thread is still in dispatch_async
			if (L.wait_for_others) for (int k = 0; k < 20000 && L.releases_called < L.nclients - 1; k++) sim_sleep_ns(5 * USEC);
			// and this thread is descheduled somewhere inside that dispatch_async (DESIGN.md 3.17: the windows are a few
			// instructions wide, so the stall is placed inside the operation instead of anywhere in the run)
			if (L.arm_rel) sim_arm_stall((uint32_t)L.arm_rel, L.arm_code);
		}
		L.items_submitted++;
		if ((c + i) & 1) dispatch_async_f(L.q, (void *)fl, item); else dispatch_barrier_async_f(L.q, (void *)fl, item);
		sim_point();
		if (L.set_width && c == L.nclients - 1) { dispatch_queue_set_width(L.q, 2 + i); sim_point(); }   // takes a suspension and two references of its own for the duration
	}
	if (L.susp && c == 1) {
		// another holder resumes: suspended by this client, which then drops its own reference; client 0 resumes
		L.susp_open++; dispatch_suspend(L.q); sim_event_signal(&L.suspended_by_1);
	}
	if (L.susp && c == 0 && L.nclients > 1) {
		sim_event_wait(&L.suspended_by_1, LIVENESS_NS);
		sim_point(); dispatch_resume(L.q); L.susp_open--;
	}
	// one holder nests its suspensions past the point where the count spills into the side counter, and comes all the way back
	if (L.deep_susp && c == 1 && !(L.last_from_item && c == 0)) {
		L.susp_open++;
		for (int k = 0; k < L.deep_susp; k++) dispatch_suspend(L.q);
		sim_point();
		for (int k = 0; k < L.deep_susp; k++) { dispatch_resume(L.q); if ((k & 15) == 15) sim_point(); }
		L.susp_open--;
	}
	// the width is changed a few more times while the other clients suspend and resume the (possibly idle) queue
	if (L.set_width && !(L.last_from_item && c == 0)) for (int k = 0; k < 3; k++) {   // (client 0's reference may already have been dropped by its last item)
		if (c == L.nclients - 1) dispatch_queue_set_width(L.q, 5 + k);
		else { L.susp_open++; dispatch_suspend(L.q); sim_point(); dispatch_resume(L.q); L.susp_open--; }
		sim_point();
	}
	// an item that suspends and resumes its own queue does so under its submitter's reference
	if (L.susp_item_sent[c]) sim_event_wait(&L.susp_item_done[c], 3 * LIVENESS_NS);
	if (c == 1 && L.set_ctx_late) { dispatch_set_context(L.q, &L.ctx2); L.expect_ctx2 = 1; }
	if (!(L.last_from_item && c == 0 && L.nitems_per > 0)) release_obj("client");
	L.done++; h_progress();
	return NULL;
}
static bool quiesced(void *c) {
	(void)c;
	if (L.done < L.nclients) return false;
	if (L.items_ended < L.items_submitted) return false;
	return L.f_obj.count >= 1;
}

/* ---- scenario 0: queue with context, finalizer, specific keys, target chain ---- */
static void scen_queue(void) {
	L.tq_kind = (int)g_n(2);   // 0 serial root, 1 concurrent root
	L.root = dispatch_queue_create("c17-root", L.tq_kind ? DISPATCH_QUEUE_CONCURRENT : NULL);
	dispatch_queue_set_specific(L.root, &L.mark, &L.mark, NULL);
	dispatch_set_context(L.root, &L.mark); dispatch_set_finalizer_f(L.root, finalizer_root);
	L.q_conc = g_chance(1, 2); L.set_width = L.q_conc && g_chance(1, 2);
	L.deep_susp = (L.nclients > 1 && g_chance(1, 6)) ? g_range(62, 70) : 0;
	L.q = dispatch_queue_create_with_target("c17-q", L.q_conc ? DISPATCH_QUEUE_CONCURRENT : NULL, L.root);
	L.obj = L.q;
	dispatch_set_context(L.q, &L.ctx1); dispatch_set_finalizer_f(L.q, finalizer_obj);
	L.client_keys = g_chance(1, 3);
	if (!L.client_keys) {
		dispatch_queue_set_specific(L.q, &L.k0, &L.k0, key_dtor0);
		dispatch_queue_set_specific(L.q, &L.k1, &L.k1, key_dtor1);
		if (g_chance(1, 2)) { dispatch_queue_set_specific(L.q, &L.k1, &L.k2, key_dtor2); /* replaces the value: the old destructor (1) runs once now */ }
	}
	sim_watch(L.q, 128);
	// every client gets its own reference; the creator's reference is one of them
	for (int i = 1; i < L.nclients; i++) dispatch_retain(L.q);
	// the target is released by its creator right away: it must stay alive because q targets it
	dispatch_release(L.root);
	sim_thread *th[MAXC];
	for (int i = 0; i < L.nclients; i++) th[i] = sim_spawn(queue_client, (void *)(intptr_t)i, "c17-client");
	sim_event_signal(&L.go);
	h_end_fault_phase(th, L.nclients, 5 * NSEC);
	if (h_wait_until(quiesced, NULL, LIVENESS_NS)) {
		char b[200]; snprintf(b, sizeof b, "clients done %d/%d, items %d/%d ended, releases %d, finalizer ran %d time(s)", L.done, L.nclients, L.items_ended, L.items_submitted, L.releases_returned, L.f_obj.count);
		h_stuck("finalizer-missing", b);
	}
	h_settle(50 * MSEC);
	if (L.f_obj.count != 1) h_viol("finalizer-twice", "finalizer count %d", L.f_obj.count);
	if (L.f_obj.stamp < L.last_item_end) h_viol("finalizer-early", "the finalizer ran before the last item of the queue had finished");
	uint64_t t0 = sim_now();
	if (L.client_keys) {
		int all = 0;
		while (!all && sim_now() - t0 < LIVENESS_NS) { all = L.f_root.count > 0; for (int c = 0; c < L.nclients; c++) if (!L.ckd[c]) all = 0; if (!all) sim_sleep_ns(100 * MSEC); }
		for (int c = 0; c < L.nclients; c++) {
			if (L.ckd[c] != 1) h_viol("key-destructor", "the destructor of the queue-specific value set by client %d ran %d times after the queue was gone (%d clients set their first keys at once)", c, L.ckd[c], L.nclients);
			if (L.ckd_stamp[c] < L.last_item_end) h_viol("key-destructor", "a queue-specific destructor ran before the queue's last item had finished");
		}
	} else {
	while ((!L.f_root.count || !L.keyd[0] || !(L.keyd[1] + L.keyd[2])) && sim_now() - t0 < LIVENESS_NS) sim_sleep_ns(100 * MSEC);
	if (L.keyd[0] != 1) h_viol("key-destructor", "the destructor of a queue-specific value ran %d times", L.keyd[0]);
	if (L.keyd[1] + L.keyd[2] < 1 || L.keyd[1] > 1 || L.keyd[2] > 1) h_viol("key-destructor", "destructors of a replaced queue-specific value ran %d and %d times", L.keyd[1], L.keyd[2]);
	if (L.keyd_stamp[0] < L.last_item_end) h_viol("key-destructor", "a queue-specific destructor ran before the queue's last item had finished");
	}
	if (L.f_root.count != 1) h_viol("finalizer-missing", "the target queue's finalizer ran %d times after everything targeting it was gone", L.f_root.count);
	if (OWNED(L.obj)) h_viol("not-freed", "the queue's memory is still allocated after its finalizer ran and every reference was dropped");
}

/* ---- scenario 1: group released while non-empty ---- */
static void grp_leave_item(void *c) { (void)c; sim_point(); L.items_ended++; L.last_item_end = h_stamp(); dispatch_group_leave(L.grp); h_progress(); }
static void grp_notify(void *c) { (void)c; L.handler_runs++; h_progress(); }
static void *group_client(void *arg) {
	int c = (int)(intptr_t)arg;
	sim_event_wait(&L.go, LIVENESS_NS);
	for (int i = 0; i < L.nitems_per; i++) { L.items_submitted++; dispatch_group_enter(L.grp); dispatch_async_f(L.root, NULL, grp_leave_item); sim_point(); }
	if (c == 0) dispatch_group_notify_f(L.grp, L.root, NULL, grp_notify);
	release_obj("client");   // possibly while the group is still non-empty
	L.done++; h_progress();
	return NULL;
}
static void scen_group(void) {
	L.tq_kind = 2;
	L.root = dispatch_queue_create("c17-gq", g_chance(1, 2) ? DISPATCH_QUEUE_CONCURRENT : NULL);
	L.grp = dispatch_group_create(); L.obj = L.grp;
	dispatch_set_context(L.grp, &L.ctx1); dispatch_set_finalizer_f(L.grp, finalizer_obj);
	sim_watch(L.grp, 96);
	for (int i = 1; i < L.nclients; i++) dispatch_retain(L.grp);
	sim_thread *th[MAXC];
	for (int i = 0; i < L.nclients; i++) th[i] = sim_spawn(group_client, (void *)(intptr_t)i, "c17-client");
	sim_event_signal(&L.go);
	h_end_fault_phase(th, L.nclients, 5 * NSEC);
	if (h_wait_until(quiesced, NULL, LIVENESS_NS)) h_stuck("finalizer-missing", "the group's finalizer did not run after every reference was dropped and every enter was matched");
	{ uint64_t t0 = sim_now(); while (!L.handler_runs && sim_now() - t0 < LIVENESS_NS) sim_sleep_ns(100 * MSEC); }   // thread shortage may delay it
	h_settle(50 * MSEC);
	if (L.handler_runs != 1) h_viol("notify-count", "the group's notify block ran %d times", L.handler_runs);
	if (OWNED(L.obj)) h_viol("not-freed", "the group's memory is still allocated after its finalizer ran");
}

/* ---- scenario 2: timer / data source released with events in flight ---- */
static void src_handler(void *c) { (void)c; L.handler_runs++; L.items_started++; (void)dispatch_source_get_data(L.src); sim_point(); L.items_ended++; L.last_item_end = h_stamp(); sim_event_signal(&L.handler_seen); h_progress(); }
static void src_cancel(void *c) { (void)c; L.cancel_runs++; h_progress(); }
static void *source_client(void *arg) {
	int c = (int)(intptr_t)arg;
	sim_event_wait(&L.go, LIVENESS_NS);
	for (int i = 0; i < L.nitems_per; i++) { if (!L.nested) dispatch_source_merge_data(L.src, 1); sim_sleep_ns((uint64_t)(10 + 20 * i) * USEC); }
	if (c == 0 && !L.no_cancel) dispatch_source_cancel(L.src);
	else if (L.susp && c == 1) { L.susp_open++; dispatch_suspend(L.src); sim_point(); dispatch_resume(L.src); L.susp_open--; }
	// the reference dropped right behind a handler invocation: the worker may still be inside the source's invoke
	if (L.wait_for_others && c == L.nclients - 1) { if (!L.nested) dispatch_source_merge_data(L.src, 1); sim_event_wait(&L.handler_seen, 2 * MSEC); for (int k = (int)(RC.seed >> 40 & 15); k > 0; k--) sim_point(); }
	release_obj("client");
	L.done++; h_progress();
	return NULL;
}
static void scen_source(void) {
	L.tq_kind = (int)g_n(2) ? 0 : 2;
	L.root = L.tq_kind == 0 ? dispatch_queue_create("c17-sq", NULL) : dispatch_get_global_queue(0, 0);
	if (L.tq_kind == 0) dispatch_queue_set_specific(L.root, &L.mark, &L.mark, NULL);
	if (L.nested) { L.src = dispatch_source_create(DISPATCH_SOURCE_TYPE_TIMER, 0, 0, L.root); dispatch_source_set_timer(L.src, dispatch_time(DISPATCH_TIME_NOW, 10000), 30000, 0); }
	else L.src = dispatch_source_create(DISPATCH_SOURCE_TYPE_DATA_ADD, 0, 0, L.root);
	L.obj = L.src;
	dispatch_set_context(L.src, &L.ctx1); dispatch_set_finalizer_f(L.src, finalizer_obj);
	dispatch_source_set_event_handler_f(L.src, src_handler);
	dispatch_source_set_cancel_handler_f(L.src, src_cancel);
	sim_watch(L.src, 120);
	dispatch_activate(L.src);
	for (int i = 1; i < L.nclients; i++) dispatch_retain(L.src);
	sim_thread *th[MAXC];
	for (int i = 0; i < L.nclients; i++) th[i] = sim_spawn(source_client, (void *)(intptr_t)i, "c17-client");
	sim_event_signal(&L.go);
	h_end_fault_phase(th, L.nclients, 5 * NSEC);
	L.items_submitted = L.items_ended;   // handler invocations are not individually owed
	if (h_wait_until(quiesced, NULL, LIVENESS_NS)) h_stuck("finalizer-missing", "the source's finalizer did not run after it was cancelled and every reference was dropped");
	if (!L.no_cancel) { uint64_t t0 = sim_now(); while (!L.cancel_runs && sim_now() - t0 < LIVENESS_NS) sim_sleep_ns(100 * MSEC); }
	h_settle(50 * MSEC);
	if (!L.no_cancel && L.cancel_runs != 1) h_viol("cancel-handler-count", "the cancellation handler ran %d times", L.cancel_runs);
	if (L.f_obj.stamp < L.last_item_end) h_viol("finalizer-early", "the source's finalizer ran before its last handler invocation had finished");
	if (OWNED(L.obj)) h_viol("not-freed", "the source's memory is still allocated after its finalizer ran");
	if (L.tq_kind == 0) dispatch_release(L.root);
}


/* ---- scenario 3: semaphore used by signallers and waiters that each hold a reference ---- */
static void *sema_client(void *arg) {
	int c = (int)(intptr_t)arg;
	sim_event_wait(&L.go, LIVENESS_NS);
	// even clients signal, odd clients wait: there are never more waits than signals, so the value is back at
	// (or above) its initial value when the last reference goes
	for (int i = 0; i < L.nitems_per; i++) {
		if (c & 1) { if (dispatch_semaphore_wait(L.sema, DISPATCH_TIME_FOREVER)) h_viol("harness", "wait(FOREVER) returned non-zero"); }
		else { L.items_submitted++; dispatch_semaphore_signal(L.sema); L.items_ended++; }
		sim_point();
	}
	release_obj("client");
	L.done++; h_progress();
	return NULL;
}
static void scen_sema(void) {
	L.tq_kind = 2;
	L.sema = dispatch_semaphore_create(0); L.obj = L.sema;
	dispatch_set_context(L.sema, &L.ctx1); dispatch_set_finalizer_f(L.sema, finalizer_obj);
	sim_watch(L.sema, 96);
	for (int i = 1; i < L.nclients; i++) dispatch_retain(L.sema);
	sim_thread *th[MAXC];
	for (int i = 0; i < L.nclients; i++) th[i] = sim_spawn(sema_client, (void *)(intptr_t)i, "c17-client");
	sim_event_signal(&L.go);
	h_end_fault_phase(th, L.nclients, 5 * NSEC);
	if (h_wait_until(quiesced, NULL, LIVENESS_NS)) h_stuck("finalizer-missing", "the semaphore's finalizer did not run after every reference was dropped");
	h_settle(50 * MSEC);
	if (L.f_obj.count != 1) h_viol("finalizer-twice", "finalizer count %d", L.f_obj.count);
	if (OWNED(L.obj)) h_viol("not-freed", "the semaphore's memory is still allocated after its finalizer ran");
}

/* ---- scenario 4: I/O channel released with a read in flight ---- */
static struct { int fds[2]; dispatch_io_t ch; int read_done, read_invocations, cleanup_runs, handler_running; size_t got, sent; uint64_t last_handler_end, cleanup_stamp; int closed_by_client;
	int retarget, barrier_runs, tq_fin[2], tq_released[2]; dispatch_queue_t tq[2]; } IO;   // retarget: the channel is given target queues its creator lets go of at once, with a barrier pending
static void io_tq_fin(void *ctx) { int i = (int)(intptr_t)ctx - 1; IO.tq_fin[i]++; if (IO.tq_fin[i] > 1) h_viol("finalizer-twice", "the finalizer of a channel's target queue ran %d times", IO.tq_fin[i]); if (!IO.tq_released[i]) h_viol("finalizer-early", "a channel's target queue was finalised while its creator still held it"); h_progress(); }
static void *io_client(void *arg) {
	int c = (int)(intptr_t)arg;
	sim_event_wait(&L.go, LIVENESS_NS);
	if (c == 0) {
		L.items_submitted++;
		dispatch_io_read(IO.ch, 0, SIZE_MAX, L.root, ^(bool done, dispatch_data_t d, int err) {
			(void)err;
			if (IO.handler_running++) h_viol("handler-reentered", "the read handler of the channel ran twice at once");
			if (IO.read_done) h_viol("handler-after-done", "the read handler ran after it had reported done");
			IO.read_invocations++;
			if (d) IO.got += dispatch_data_get_size(d);
			// the channel is used through the operation's own reference: the clients may all have let go
			(void)dispatch_io_get_descriptor(IO.ch);
			sim_point();
			if (done) { IO.read_done = 1; L.items_ended++; L.last_item_end = h_stamp(); }
			IO.last_handler_end = h_stamp();
			IO.handler_running--;
			h_progress();
		});
		if (IO.retarget) {
			// a barrier is pending when the channel is moved to another target queue; nobody but the channel holds the old one
			dispatch_io_barrier(IO.ch, ^{ IO.barrier_runs++; (void)dispatch_io_get_descriptor(IO.ch); h_progress(); });
			for (int k = (int)(RC.seed >> 28 & 7); k > 0; k--) sim_point();
			dispatch_set_target_queue(IO.ch, IO.tq[1]);
			IO.tq_released[1] = 1; dispatch_release(IO.tq[1]);
		}
	} else if (c == 1) {
		char buf[64]; memset(buf, 'x', sizeof buf);
		for (int i = 0; i < L.nitems_per; i++) { ssize_t r = write(IO.fds[1], buf, 1 + (size_t)(i * 17 % 64)); if (r > 0) IO.sent += (size_t)r; sim_sleep_ns((uint64_t)(10 + 15 * i) * USEC); }
		close(IO.fds[1]); IO.fds[1] = -1;   // end of file completes the read
	} else if (c == 2 && L.susp) {
		sim_sleep_ns((uint64_t)(RC.seed >> 20 & 63) * USEC);
		IO.closed_by_client = 1;
		dispatch_io_close(IO.ch, L.nested ? DISPATCH_IO_STOP : 0);
	}
	release_obj("client");
	L.done++; h_progress();
	return NULL;
}
static bool io_quiesced(void *c) { return quiesced(c) && IO.read_done; }
static void scen_io(void) {
	memset(&IO, 0, sizeof IO);
	L.tq_kind = 2;
	if (L.nclients < 2) L.nclients = 2;
	if (pipe2(IO.fds, O_NONBLOCK)) h_viol("harness", "pipe");
	L.root = dispatch_queue_create("c17-ioq", g_chance(1, 2) ? DISPATCH_QUEUE_CONCURRENT : NULL);
	int rfd = IO.fds[0];
	IO.ch = dispatch_io_create(DISPATCH_IO_STREAM, rfd, L.root, ^(int err) {
		(void)err;
		IO.cleanup_runs++; IO.cleanup_stamp = h_stamp();
		// (when the cleanup handler runs relative to the operations' handlers is C14's clause, not judged here)
		close(rfd);
		h_progress();
	});
	if (!IO.ch) h_viol("harness", "dispatch_io_create failed");
	L.obj = IO.ch;
	dispatch_set_context(IO.ch, &L.ctx1); dispatch_set_finalizer_f(IO.ch, finalizer_obj);
	dispatch_io_set_low_water(IO.ch, 1);
	sim_watch(IO.ch, 160);
	IO.retarget = g_chance(1, 3);
	if (IO.retarget) {
		for (int i = 0; i < 2; i++) { IO.tq[i] = dispatch_queue_create(i ? "c17-iotq2" : "c17-iotq1", i ? DISPATCH_QUEUE_CONCURRENT : NULL); dispatch_set_context(IO.tq[i], (void *)(intptr_t)(i + 1)); dispatch_set_finalizer_f(IO.tq[i], io_tq_fin); }
		dispatch_set_target_queue(IO.ch, IO.tq[0]);
		IO.tq_released[0] = 1; dispatch_release(IO.tq[0]);
	}
	for (int i = 1; i < L.nclients; i++) dispatch_retain(IO.ch);
	sim_thread *th[MAXC];
	for (int i = 0; i < L.nclients; i++) th[i] = sim_spawn(io_client, (void *)(intptr_t)i, "c17-client");
	sim_event_signal(&L.go);
	h_end_fault_phase(th, L.nclients, 5 * NSEC);
	if (h_wait_until(io_quiesced, NULL, LIVENESS_NS)) {
		char b[200]; snprintf(b, sizeof b, "clients done %d/%d, read done %d after %d invocation(s), cleanup ran %d time(s), finalizer ran %d time(s)", L.done, L.nclients, IO.read_done, IO.read_invocations, IO.cleanup_runs, L.f_obj.count);
		h_stuck("finalizer-missing", b);
	}
	h_settle(50 * MSEC);
	if (L.f_obj.count != 1) h_viol("finalizer-twice", "finalizer count %d", L.f_obj.count);
	{ uint64_t t0 = sim_now(); while (!IO.cleanup_runs && sim_now() - t0 < 5 * NSEC) sim_sleep_ns(10 * MSEC); }   // closes the descriptor; not judged here
	if (L.f_obj.stamp < IO.last_handler_end) h_viol("finalizer-early", "the channel's finalizer ran before the last invocation of its read handler had finished");
	if (!IO.closed_by_client && IO.got != IO.sent) h_viol("harness-io", "read %zu of %zu bytes", IO.got, IO.sent);
	if (IO.retarget) {
		uint64_t t0 = sim_now(); while ((!IO.tq_fin[0] || !IO.tq_fin[1] || !IO.barrier_runs) && sim_now() - t0 < LIVENESS_NS) sim_sleep_ns(20 * MSEC);
		if (IO.barrier_runs != 1) h_viol("barrier-count", "a barrier submitted to the channel before it was given a new target queue ran %d times", IO.barrier_runs);
		if (IO.tq_fin[0] != 1 || IO.tq_fin[1] != 1) h_viol("finalizer-missing", "the finalizers of the two queues the channel targeted ran %d and %d times after the channel was gone", IO.tq_fin[0], IO.tq_fin[1]);
	}
	if (OWNED(L.obj)) h_viol("not-freed", "the channel's memory is still allocated after its finalizer ran");
	if (IO.fds[1] >= 0) close(IO.fds[1]);
	dispatch_release(L.root);
}

/* ---- scenario 5: data objects sharing one buffer, released from several threads ---- */
static struct { dispatch_data_t d[MAXC]; unsigned char *buf; size_t n; int dtor_runs; uint64_t dtor_stamp; int total_refs; } DD;
static void *data_client(void *arg) {
	int c = (int)(intptr_t)arg;
	sim_event_wait(&L.go, LIVENESS_NS);
	dispatch_data_t d = DD.d[c];
	for (int i = 0; i < L.nitems_per; i++) {
		// reading through a derived object must stay memory-safe while the others are released (ASan watches the buffer)
		__block unsigned sum = 0;
		dispatch_data_apply(d, ^bool(dispatch_data_t r, size_t off, const void *p, size_t n) { (void)r; (void)off; for (size_t k = 0; k < n; k++) sum += ((const unsigned char *)p)[k]; return true; });
		if (DD.dtor_runs) h_viol("destructor-early", "the buffer's destructor ran while an object derived from it was still referenced");
		if (i == 0 && c == 1) { dispatch_data_t s = dispatch_data_create_subrange(d, 1, 3); sim_point(); dispatch_release(s); }
		L.items_ended += (sum == 0xffffffffu);   // keeps the reads alive
		sim_point();
	}
	L.releases_called++;
	h_log("client %d releases its data object (%d of %d)", c, L.releases_called, L.nclients);
	dispatch_release(d);
	L.releases_returned++;
	L.done++; h_progress();
	return NULL;
}
static bool data_quiesced(void *c) { (void)c; return L.done >= L.nclients && DD.dtor_runs >= 1; }
static void scen_data(void) {
	memset(&DD, 0, sizeof DD);
	L.tq_kind = 2;
	DD.n = 64 + g_n(200); DD.buf = malloc(DD.n); memset(DD.buf, 7, DD.n);
	L.root = dispatch_queue_create("c17-dq", NULL);
	unsigned char *b = DD.buf;
	dispatch_data_t base = dispatch_data_create(DD.buf, DD.n, L.root, ^{
		DD.dtor_runs++; DD.dtor_stamp = h_stamp();
		if (DD.dtor_runs > 1) h_viol("destructor-twice", "the buffer's destructor ran %d times", DD.dtor_runs);
		if (L.releases_called < L.nclients) h_viol("destructor-early", "the buffer's destructor ran although only %d of %d objects built on it had been released", L.releases_called, L.nclients);
		free(b);
		h_progress();
	});
	// every client gets a different object built on the same buffer
	for (int i = 0; i < L.nclients; i++) {
		switch ((i + (int)g_n(5)) % 5) {
		case 0: DD.d[i] = base; dispatch_retain(base); break;
		case 1: DD.d[i] = dispatch_data_create_subrange(base, 3 + g_n(10), 10 + g_n(40)); break;
		case 2: { dispatch_data_t s = dispatch_data_create_subrange(base, g_n(20), 5 + g_n(20)); DD.d[i] = dispatch_data_create_concat(s, base); dispatch_release(s); break; }
		case 4: {   // a subrange spanning adjacent records of a composite that refer to the same leaf (round 11, C17k)
			dispatch_data_t cc = dispatch_data_create_concat(base, base); size_t k = 1 + g_n(20), len = 2 * k;
			if (g_chance(1, 2)) { dispatch_data_t c3 = dispatch_data_create_concat(cc, base); dispatch_release(cc); cc = c3; len = DD.n + 2 * k; }
			DD.d[i] = dispatch_data_create_subrange(cc, DD.n - k, len); dispatch_release(cc); break; }
		default: { dispatch_data_t s = dispatch_data_create_subrange(base, 10, 30), t = dispatch_data_create_subrange(s, 2, 9); DD.d[i] = dispatch_data_create_concat(t, s); dispatch_release(s); dispatch_release(t); break; }
		}
	}
	dispatch_release(base);
	L.f_obj.count = 1;   // no finalizer on data objects: the destructor is the event judged
	sim_thread *th[MAXC];
	for (int i = 0; i < L.nclients; i++) th[i] = sim_spawn(data_client, (void *)(intptr_t)i, "c17-client");
	sim_event_signal(&L.go);
	h_end_fault_phase(th, L.nclients, 5 * NSEC);
	if (h_wait_until(data_quiesced, NULL, LIVENESS_NS)) h_stuck("destructor-missing", "the buffer's destructor did not run after every object built on it was released");
	h_settle(20 * MSEC);
	if (DD.dtor_runs != 1) h_viol("destructor-twice", "destructor count %d", DD.dtor_runs);
	dispatch_release(L.root);
}

/* ---- scenario 6: a queue that a block object is running on while another thread waits for the block ----
 * (dispatch_block_wait and the end of the block's execution both try to take over the references the block object
 * holds on its queue) */
static struct { dispatch_block_t b; sim_event started, finish; int waited; } BK;
static void *blockq_client(void *arg) {
	int c = (int)(intptr_t)arg;
	sim_event_wait(&L.go, LIVENESS_NS);
	if (c == 0) {
		L.items_submitted++;
		if (L.nested) dispatch_barrier_async(L.q, BK.b); else dispatch_async(L.q, BK.b);
	} else if (c == 1) {
		sim_event_wait(&BK.started, 2 * MSEC);
		sim_event_signal(&BK.finish);                      // the body returns ...
		for (int k = (int)(RC.seed >> 36 & 15); k > 0; k--) sim_point();
		if (L.arm_rel) sim_arm_stall((uint32_t)L.arm_rel, L.arm_code);
		// ... while this thread waits for the block object
		long r = dispatch_block_wait(BK.b, L.susp ? DISPATCH_TIME_FOREVER : dispatch_time(DISPATCH_TIME_NOW, 50 * (int64_t)MSEC));
		BK.waited = 1;
		if (r == 0 && L.items_ended < L.items_submitted) h_viol("block-wait-early", "dispatch_block_wait returned 0 before the block's execution had finished");
	} else {
		for (int i = 0; i < L.nitems_per; i++) { dispatch_retain(L.q); sim_point(); dispatch_release(L.q); }
	}
	// the waiter keeps the queue until it has waited; everybody else lets go whenever
	release_obj("client");
	L.done++; h_progress();
	return NULL;
}
static void scen_blockq(void) {
	memset(&BK, 0, sizeof BK);
	if (L.nclients < 2) L.nclients = 2;
	L.tq_kind = (int)g_n(2);
	L.root = dispatch_queue_create("c17-broot", L.tq_kind ? DISPATCH_QUEUE_CONCURRENT : NULL);
	dispatch_queue_set_specific(L.root, &L.mark, &L.mark, NULL);
	dispatch_set_context(L.root, &L.mark); dispatch_set_finalizer_f(L.root, finalizer_root);
	L.q = dispatch_queue_create_with_target("c17-bq", g_chance(1, 2) ? DISPATCH_QUEUE_CONCURRENT : NULL, L.root);
	L.obj = L.q;
	dispatch_set_context(L.q, &L.ctx1); dispatch_set_finalizer_f(L.q, finalizer_obj);
	sim_watch(L.q, 128);
	for (int i = 1; i < L.nclients; i++) dispatch_retain(L.q);
	dispatch_release(L.root);
	BK.b = dispatch_block_create(0, ^{
		L.items_started++;
		sim_event_signal(&BK.started);
		sim_event_wait(&BK.finish, 1 * MSEC);
		sim_point();
		L.items_ended++; L.last_item_end = h_stamp();
		h_progress();
	});
	sim_watch(BK.b, 192);
	sim_thread *th[MAXC];
	for (int i = 0; i < L.nclients; i++) th[i] = sim_spawn(blockq_client, (void *)(intptr_t)i, "c17-client");
	sim_event_signal(&L.go);
	h_end_fault_phase(th, L.nclients, 5 * NSEC);
	if (h_wait_until(quiesced, NULL, LIVENESS_NS)) {
		char b[200]; snprintf(b, sizeof b, "clients done %d/%d, block body ran %d/%d, releases %d, finalizer ran %d time(s)", L.done, L.nclients, L.items_ended, L.items_submitted, L.releases_returned, L.f_obj.count);
		h_stuck("finalizer-missing", b);
	}
	h_settle(50 * MSEC);
	if (L.f_obj.count != 1) h_viol("finalizer-twice", "finalizer count %d", L.f_obj.count);
	if (L.f_obj.stamp < L.last_item_end) h_viol("finalizer-early", "the queue's finalizer ran before the block running on it had finished");
	{ uint64_t t0 = sim_now(); while (!L.f_root.count && sim_now() - t0 < LIVENESS_NS) sim_sleep_ns(100 * MSEC); }
	if (L.f_root.count != 1) h_viol("finalizer-missing", "the target queue's finalizer ran %d times after everything targeting it was gone", L.f_root.count);
	if (OWNED(L.obj)) h_viol("not-freed", "the queue's memory is still allocated after its finalizer ran and every reference was dropped");
	Block_release(BK.b);
}

/* ---- scenario 7: one object given new target queues by several threads at once ----
 * (every queue it ever targets has a finalizer: a queue is finalised once, only after the application has dropped
 * its own reference and the object no longer targets it, and the queue the object targets at the end lives until the
 * object goes) */
#define RT_MAXQ (2 + MAXC * 4)
static struct { dispatch_queue_t tq[RT_MAXQ]; fin f[RT_MAXQ]; int released[RT_MAXQ], ntq, kind, obj_fin; dispatch_object_t o; int handler_runs; } RT;
static void rt_fin(void *ctx) {
	int i = (int)(intptr_t)ctx - 1;
	RT.f[i].count++; RT.f[i].stamp = h_stamp();
	h_log("finalizer of target queue %d runs", i);
	if (RT.f[i].count > 1) h_viol("finalizer-twice", "the finalizer of target queue %d ran %d times", i, RT.f[i].count);
	if (!RT.released[i]) h_viol("finalizer-early", "target queue %d was finalised while the application still held its own reference to it", i);
	h_progress();
}
static void rt_obj_fin(void *ctx) { (void)ctx; RT.obj_fin++; h_progress(); }
static void rt_item(void *ctx) { (void)ctx; RT.handler_runs++; h_progress(); }
static int rt_new_queue(int conc) {
	int i = RT.ntq++;
	char nm[24]; snprintf(nm, sizeof nm, "c17-rt%d", i);
	RT.tq[i] = dispatch_queue_create(nm, conc ? DISPATCH_QUEUE_CONCURRENT : NULL);
	dispatch_set_context(RT.tq[i], (void *)(intptr_t)(i + 1)); dispatch_set_finalizer_f(RT.tq[i], rt_fin);
	return i;
}
static void *retarget_client(void *arg) {
	int c = (int)(intptr_t)arg;
	sim_event_wait(&L.go, LIVENESS_NS);
	// a not yet activated queue or source is also suspended and resumed meanwhile (balanced): its references must come out even
	if ((RT.kind == 2 || RT.kind == 3) && L.susp && c < 2) { dispatch_suspend(RT.o); sim_point(); dispatch_resume(RT.o); }
	for (int r = 0; r < L.nitems_per; r++) {
		int i = rt_new_queue((c + r) & 1);
		if (L.arm_rel && r == 0 && c < 2) sim_arm_stall((uint32_t)(1 + L.arm_rel % 12), L.arm_code);
		dispatch_set_target_queue(RT.o, RT.tq[i]);
		L.items_ended++;
		sim_point();
		if (L.nested && c == 0 && r == 0) dispatch_set_target_queue(RT.o, DISPATCH_TARGET_QUEUE_DEFAULT);   // a global queue: no reference involved
		// the object keeps its target alive by itself: the creator lets go right away
		RT.released[i] = 1; dispatch_release(RT.tq[i]);
	}
	L.done++; h_progress();
	return NULL;
}
static bool rt_clients_done(void *c) { (void)c; return L.done >= L.nclients; }
static int rt_finalised(int from) { int n = 0; for (int i = from; i < RT.ntq; i++) n += RT.f[i].count ? 1 : 0; return n; }
static bool rt_all_but_one(void *c) { (void)c; return rt_finalised(1) >= RT.ntq - 2; }
static bool rt_first_gone(void *c) { (void)c; return RT.f[0].count >= 1; }
static bool rt_all_gone(void *c) { (void)c; return rt_finalised(0) >= RT.ntq && RT.obj_fin >= 1; }
static void scen_retarget(void) {
	memset(&RT, 0, sizeof RT);
	L.tq_kind = 2;
	if (L.nitems_per < 1) L.nitems_per = 1;
	RT.kind = (int)g_n(5);
	static const char *const kn[] = { "group", "semaphore", "initially inactive queue", "not yet activated source", "data object" };
	h_log("object under test: %s", kn[RT.kind]);
	switch (RT.kind) {
	case 0: RT.o = (dispatch_object_t)dispatch_group_create(); break;
	case 1: RT.o = (dispatch_object_t)dispatch_semaphore_create(1); break;
	case 2: RT.o = (dispatch_object_t)dispatch_queue_create("c17-rtq", dispatch_queue_attr_make_initially_inactive(g_chance(1, 2) ? DISPATCH_QUEUE_CONCURRENT : NULL)); break;
	case 3: RT.o = (dispatch_object_t)dispatch_source_create(DISPATCH_SOURCE_TYPE_DATA_ADD, 0, 0, NULL); dispatch_source_set_event_handler_f((dispatch_source_t)(struct dispatch_object_s *)RT.o._do, rt_item); break;
	default: RT.o = (dispatch_object_t)dispatch_data_create("c17", 3, NULL, DISPATCH_DATA_DESTRUCTOR_DEFAULT); break;
	}
	L.obj = (void *)RT.o._do;
	if (RT.kind != 4) { dispatch_set_context(RT.o, &L.ctx1); dispatch_set_finalizer_f(RT.o, rt_obj_fin); } else RT.obj_fin = 1;
	sim_watch(L.obj, 96);
	// the first target: held by the application until every thread is done with the object
	int first = rt_new_queue(0);
	dispatch_set_target_queue(RT.o, RT.tq[first]);
	sim_thread *th[MAXC];
	for (int i = 0; i < L.nclients; i++) th[i] = sim_spawn(retarget_client, (void *)(intptr_t)i, "c17-client");
	sim_event_signal(&L.go);
	h_end_fault_phase(th, L.nclients, 5 * NSEC);
	if (h_wait_until(rt_clients_done, NULL, LIVENESS_NS)) h_stuck("liveness", "a dispatch_set_target_queue call did not return");
	// every queue the object was moved away from has lost its last reference; exactly one is still targeted
	if (h_wait_until(rt_all_but_one, NULL, LIVENESS_NS)) {
		char b[160]; snprintf(b, sizeof b, "%d of %d queues the object was given and moved away from again were never finalised although their creators released them", RT.ntq - 2 - rt_finalised(1), RT.ntq - 2);
		h_stuck("finalizer-missing", b);
	}
	h_settle(20 * MSEC);
	if (!L.nested && rt_finalised(1) > RT.ntq - 2) h_viol("target-freed-early", "all %d queues the threads gave the object are finalised while the object still exists: the queue it targets now was freed under it", RT.ntq - 1);
	if (RT.f[0].count) h_viol("finalizer-early", "the first target queue was finalised while the application still held it");
	(void)dispatch_queue_get_label(RT.tq[0]);
	RT.released[0] = 1; dispatch_release(RT.tq[0]);
	if (h_wait_until(rt_first_gone, NULL, LIVENESS_NS)) h_stuck("finalizer-missing", "the first target queue was never finalised although the object no longer targets it and the application released it");
	// the object is used once on whatever it targets now, then goes
	if (RT.kind == 2) { dispatch_queue_t q = (dispatch_queue_t)(struct dispatch_object_s *)RT.o._do; dispatch_activate(q); dispatch_sync_f(q, NULL, rt_item); if (RT.handler_runs != 1) h_viol("harness", "sync item did not run"); }
	if (RT.kind == 3) {
		dispatch_source_t s = (dispatch_source_t)(struct dispatch_object_s *)RT.o._do;
		dispatch_activate(s); dispatch_source_merge_data(s, 1);
		{ uint64_t t0 = sim_now(); while (!RT.handler_runs && sim_now() - t0 < LIVENESS_NS) sim_sleep_ns(1 * MSEC); }
		if (!RT.handler_runs) h_viol("liveness", "the source's handler never ran on the queue the source was given last");
		dispatch_source_cancel(s);
	}
	dispatch_release(RT.o);
	if (h_wait_until(rt_all_gone, NULL, LIVENESS_NS)) {
		char b[160]; snprintf(b, sizeof b, "%d of %d target queues finalised, object finalizer ran %d time(s) after the object and every queue were released", rt_finalised(0), RT.ntq, RT.obj_fin);
		h_stuck("finalizer-missing", b);
	}
	h_settle(20 * MSEC);
	for (int i = 0; i < RT.ntq; i++) {
		if (RT.f[i].count != 1) h_viol("finalizer-twice", "finalizer of target queue %d ran %d times", i, RT.f[i].count);
		if (OWNED(RT.tq[i])) h_viol("not-freed", "target queue %d is still allocated after its finalizer ran", i);
	}
	L.f_obj.count = 1;   // for the non-trivial measure
}

static void c17_run(void) {
	memset(&L, 0, sizeof L);
	{ int r = (int)g_n(25); L.scenario = r < 9 ? 0 : r < 12 ? 1 : r < 15 ? 2 : r < 17 ? 3 : r < 19 ? 4 : r < 20 ? 5 : r < 22 ? 6 : 7; }
	L.nclients = g_range(2, MAXC); L.nitems_per = g_range(0, 4);
	L.susp = g_chance(1, 2); L.nested = g_chance(1, 2); L.last_from_item = g_chance(1, 3); L.set_ctx_late = g_chance(1, 4);
	if (L.scenario != 0) { L.last_from_item = 0; L.set_ctx_late = 0; }
	if (L.scenario == 2) L.no_cancel = g_chance(1, 2);   // a source that is released without ever being cancelled
	L.wait_for_others = g_chance(1, 2);
	if (g_chance(2, 3)) { L.arm_rel = g_range(1, 70); L.arm_code = g_range(1, 4); }
	if (L.scenario == 0 && g_chance(1, 3)) { L.last_from_item = 1; if (L.nitems_per < 2) L.nitems_per = 2; }
	static const char *const sn[] = { "queue (context, finalizer, specific keys) targeting a queue its creator has already released", "group released while non-empty", "source released with events in flight",
		"semaphore shared by signallers and waiters", "I/O channel released with a read in flight", "data objects built on one buffer released from several threads",
		"queue with a block object running on it while another thread is in dispatch_block_wait",
		"object (group, semaphore, inactive queue, inactive source or data) given new target queues by several threads at once" };
	h_sample("%s; %d clients x %d items%s%s%s%s\n", sn[L.scenario], L.nclients, L.nitems_per, L.susp ? ", suspend/resume" : "", L.nested ? (L.scenario == 2 ? ", timer" : L.scenario == 4 ? ", close(STOP)" : L.scenario == 7 ? ", the default target in between" : ", nested submission") : "",
		L.last_from_item ? ", one reference dropped from inside the last item" : L.no_cancel ? ", never cancelled" : "", L.set_ctx_late ? ", context replaced before the last release" : "");
	h_announce();
	switch (L.scenario) { case 0: scen_queue(); break; case 1: scen_group(); break; case 2: scen_source(); break; case 3: scen_sema(); break; case 4: scen_io(); break; case 5: scen_data(); break; case 6: scen_blockq(); break; default: scen_retarget(); }
	RES.counters[0] = L.items_ended; RES.counters[1] = L.releases_returned; RES.counters[2] = L.f_obj.count; RES.counters[3 + L.scenario] = 1;   /* 3..10 */
	RES.nontrivial = L.f_obj.count == 1 && (sim_st.watched_preempts > 0 || sim_st.fired[K_STALL] > 0);
}
static void c17_tune(sim_knobs *k, unsigned cfg, uint64_t *g) {
	(void)cfg;
	// the interesting windows are a few instructions wide: favour stalls and PCT (DESIGN.md 3.17)
	uint32_t r = (uint32_t)(g[1] % 100);
	if (r < 45) { k->strategy = STRAT_STALL; k->stall_k = 1 + (int)(g[1] >> 8) % 3; if (k->preempt_den < 20) k->preempt_den = 20;
		for (int i = 0; i < k->stall_k; i++) { k->stall_tid[i] = 1 + (int)((g[1] >> (12 + 4 * i)) % 6); k->stall_ord[i] = 1 + (g[1] >> (24 + 8 * i)) % 400; k->stall_code[i] = 1 + (int)((g[1] >> (40 + 2 * i)) % 4); } }
	else if (r < 60) k->strategy = STRAT_PCT;
	k->alloc_den = 0;
}
static const char *const c17_names[] = { "items_or_handler_invocations", "references_dropped", "finalizers_run", "queue_runs", "group_runs", "source_runs", "semaphore_runs", "io_channel_runs", "data_runs", "block_wait_runs", "concurrent_retarget_runs", NULL };
const prop_def prop_C17 = { "C17", c17_tune, c17_run, c17_names,
	"non-trivial: the object's finalizer ran and a pre-emption or injected stall was taken inside the object's atomics; distinct = distinct schedule signatures among those" };

// C01-C06: thin property definitions over the queue-program interpreter
#include "qprog.h"

/* ---- C01: every submitted item runs exactly once, none stranded ---- */
static void c01_run(void) {
	qgen g; qgen_defaults(&g);
	g.oracles = O_ONCE;
	bool big = RC.cfg & CFG_THOROUGH;
	g.max_clients = big ? 5 : 4; g.max_ops = big ? 12 : 9; g.max_queues = big ? 6 : 4;
	g.bodymask |= 1u << B_SLEEP;
	switch (g_n(8)) {
	case 0: case 1: /* flood: many items, few queues */
		g.min_queues = 1; g.max_queues = 2; g.min_ops = 8; g.max_ops = big ? 24 : 14; g.nest_pct = 10; break;
	case 2: case 3: /* ping-pong on one queue */
		g.pingpong = 1; g.single_queue = 0; g.min_queues = 1; g.max_queues = 2; g.min_ops = 6; g.max_ops = 14;
		g.qkindmask = (1u << QK_SERIAL) | (1u << QK_CONC); break;
	case 4: /* pool blocker */
		g.poolblock = 1; g.qkindmask = 1u << QK_GLOBAL | 1u << QK_SERIAL; g.min_queues = 2; g.max_queues = 3; g.max_ops = 5; break;
	case 5: /* gate: asynchronous forms return without any item having run */
		g.gate = 1; g.max_ops = 6; break;
	default:
		// the general shape also takes workloops and, now and then, the main queue
		if (g_chance(1, 3)) g.qkindmask |= 1u << QK_WORKLOOP;
		if (g_chance(1, 6)) { g.use_main = 1; g.qkindmask |= 1u << QK_MAIN; }
		g.opmask |= 1u << OP_BARRIER_AAW;
		break;
	}
	if (g_chance(1, 6)) g.opmask |= 1u << OP_APPLY;
	qprog_run(&g);
}
const prop_def prop_C01 = { "C01", NULL, c01_run, qprog_counter_names,
	"a run is non-trivial when at least two items completed and at least one pre-emption or stall was taken at an atomic of a queue under test; distinct = distinct schedule signatures (hash of every context switch: from-thread, its hook ordinal, to-thread) among those" };

/* ---- C02: serial queues run one item at a time, in submission order ---- */
static void c02_run(void) {
	qgen g; qgen_defaults(&g);
	g.oracles = O_SERIAL;
	g.qkindmask = 1u << QK_SERIAL; g.min_queues = 1; g.max_queues = 1; g.single_queue = 1;
	g.opmask |= (1u << OP_BARRIER_AAW);
	g.min_clients = 2; g.max_clients = 4; g.min_ops = 3; g.max_ops = (RC.cfg & CFG_THOROUGH) ? 12 : 8;
	g.nest_pct = 15;
	if (g_chance(1, 4)) { g.use_main = 1; g.qkindmask = 1u << QK_MAIN; g.dispatch_main = g_chance(1, 2); }
	else if (g_chance(1, 3)) { g.max_queues = 3; g.qkindmask |= 1u << QK_GLOBAL; g.single_queue = 0; }
	// a quarter of the private-queue runs: the queue is suspended and resumed meanwhile, from its own items and from
	// other threads (order and exclusion are not allowed to depend on it)
	if (!g.use_main && g_chance(1, 4)) { g.opmask |= (1u << OP_SUSPEND) | (1u << OP_PAUSE); g.oracles |= O_SUSPEND; g.nest_pct = 35; }
	qprog_run(&g);
}
const prop_def prop_C02 = { "C02", NULL, c02_run, qprog_counter_names,
	"non-trivial: >=2 items completed on the serial queue with a pre-emption/stall inside the queue's atomics; distinct = distinct schedule signatures among those" };

/* ---- C03: a serial bottom (or workloop) serialises the whole hierarchy ---- */
static void c03_run(void) {
	qgen g; qgen_defaults(&g);
	g.oracles = O_HIER;
	g.qkindmask = (1u << QK_SERIAL) | (1u << QK_CONC);
	if (g_chance(1, 3)) g.qkindmask |= 1u << QK_WORKLOOP;
	g.min_queues = 2; g.max_queues = (RC.cfg & CFG_THOROUGH) ? 7 : 5; g.max_qdepth = 4;
	g.inactive_pct = 20;
	g.opmask |= (1u << OP_APPLY) | (1u << OP_BARRIER_AAW);
	g.min_clients = 2; g.max_clients = 4; g.max_ops = 8;
	g.retarget = 3;   // half of the runs (the value is the chance in sixths)
	qprog_run(&g);
}
const prop_def prop_C03 = { "C03", NULL, c03_run, qprog_counter_names,
	"non-trivial: >=2 items completed in a hierarchy with a pre-emption/stall inside a queue's atomics; distinct = distinct schedule signatures among those" };

/* ---- C04: barriers on concurrent queues ---- */
static void c04_run(void) {
	qgen g; qgen_defaults(&g);
	g.oracles = O_BARRIER;
	g.blockobj = 1;
	g.qkindmask = 1u << QK_CONC; g.min_queues = 1; g.max_queues = 1; g.single_queue = 1;
	g.width_pct = 30;
	g.opmask |= (1u << OP_APPLY) | (1u << OP_BARRIER_AAW);
	g.bodymask |= 1u << B_SLEEP;
	g.min_clients = 2; g.max_clients = 5; g.min_ops = 3; g.max_ops = (RC.cfg & CFG_THOROUGH) ? 12 : 8;
	g.nest_pct = 10;
	if (g_chance(1, 4)) { g.max_queues = 2; g.single_queue = 0; }   // second concurrent queue, possibly targeting the first
	// a quarter of the runs: the queue is suspended and resumed while readers are in flight and barriers pending
	if (g_chance(1, 4)) { g.opmask |= (1u << OP_SUSPEND) | (1u << OP_PAUSE); g.oracles |= O_SUSPEND; g.nest_pct = 30; }
	qprog_run(&g);
}
const prop_def prop_C04 = { "C04", NULL, c04_run, qprog_counter_names,
	"non-trivial: >=2 items completed, at least one pre-emption/stall inside the concurrent queue's atomics; distinct = distinct schedule signatures among those (runs_with_overlapping_readers reports how often the width accounting was really exercised)" };

/* ---- C05: synchronous forms return after completion (logic half; see DESIGN 3.5) ---- */
extern void prims_run_for_c05(void);
static void c05_run(void) {
	if (g_chance(3, 10)) { prims_run_for_c05(); return; }
	qgen g; qgen_defaults(&g);
	g.oracles = O_SYNCRET | O_SERIAL | O_HIER | O_BARRIER;   // hand-offs carry data only if the items are serialised (or excluded by barriers) in the first place
	g.retarget = 2;
	g.opmask |= (1u << OP_BARRIER_AAW) | (1u << OP_APPLY);
	// a quarter of the runs: queues are suspended and resumed meanwhile (a lock handed to a parked waiter by a resume)
	if (g_chance(1, 4)) { g.opmask |= (1u << OP_SUSPEND) | (1u << OP_PAUSE); g.oracles |= O_SUSPEND; }
	g.qkindmask |= 1u << QK_WORKLOOP;
	g.max_queues = 5; g.max_qdepth = 3; g.nest_pct = 30;
	g.min_clients = 2; g.max_clients = 4; g.max_ops = (RC.cfg & CFG_THOROUGH) ? 12 : 8;
	g.bodymask |= 1u << B_SLEEP;
	if (g_chance(1, 5)) { g.use_main = 1; g.qkindmask |= 1u << QK_MAIN; }
	// a quarter of the runs: deeper hierarchies of serial queues over concurrent ones only, some of them activated late
	// (a waiter that is handed the lock of its queue still has to be admitted by every level above it)
	else if (g_chance(1, 3)) {
		g.qkindmask = (1u << QK_SERIAL) | (1u << QK_CONC);
		g.min_queues = 3; g.max_qdepth = 4; g.inactive_pct = 20;
	}
	qprog_run(&g);
}
const prop_def prop_C05 = { "C05", NULL, c05_run, qprog_counter_names,
	"non-trivial: >=2 items completed with a pre-emption/stall inside a queue's atomics; distinct = distinct schedule signatures among those (sync_calls counts the synchronous submissions judged)" };

/* ---- C06: inactive and suspended queues ---- */
/* mini-scenario (round 11, C06k): the suspend count that dispatch_set_target_queue takes on an idle active queue for
 * the time of its inline mutator must come back off exactly, also when another thread suspends/resumes meanwhile */
static struct { dispatch_queue_t q, t[2]; int rounds_a, rounds_b, ran, flushed; } RR;
static void *rr_mover(void *arg) { (void)arg;
	for (int k = 0; k < RR.rounds_a; k++) {
		dispatch_set_target_queue(RR.q, RR.t[k & 1]); sim_point();
		dispatch_sync(RR.q, ^{ RR.flushed++; });   // behind the change
	}
	return NULL; }
static void *rr_suspender(void *arg) { (void)arg;
	for (int k = 0; k < RR.rounds_b; k++) { dispatch_suspend(RR.q); sim_point(); dispatch_resume(RR.q); sim_point(); }
	return NULL; }
static bool rr_ran(void *c) { (void)c; return RR.ran != 0; }
static void c06_retarget_race(void) {
	memset(&RR, 0, sizeof RR);
	int conc = (int)g_n(2); RR.rounds_a = g_range(1, 5); RR.rounds_b = g_range(1, 6);
	h_sample("an idle active %s queue moved between two serial targets %d time(s) (each followed by a dispatch_sync) while another thread suspends and resumes it %d time(s); then one item\n", conc ? "concurrent" : "serial", RR.rounds_a, RR.rounds_b);
	h_announce();
	RR.q = dispatch_queue_create("c06-moved", conc ? DISPATCH_QUEUE_CONCURRENT : NULL);
	RR.t[0] = dispatch_queue_create("c06-t0", NULL); RR.t[1] = dispatch_queue_create("c06-t1", NULL);
	sim_thread *th[2] = { sim_spawn(rr_mover, NULL, "c06-mover"), sim_spawn(rr_suspender, NULL, "c06-suspender") };
	if (h_end_fault_phase(th, 2, 5 * NSEC)) {
		// the mover may legitimately still be parked behind a suspension only while the suspender is at work
	}
	dispatch_async(RR.q, ^{ RR.ran++; h_progress(); });
	if (h_wait_until(rr_ran, NULL, LIVENESS_NS)) h_stuck("liveness", "an item submitted after every dispatch_suspend had been matched by a dispatch_resume never ran (the queue was moved with dispatch_set_target_queue meanwhile)");
	h_settle(5 * MSEC);
	if (RR.ran != 1) h_viol("exactly-once", "the item ran %d times", RR.ran);
	RES.counters[0] = RR.rounds_a + RR.rounds_b;
	RES.nontrivial = sim_st.watched_preempts > 0 || sim_st.fired[K_STALL] > 0;
}
static void c06_run(void) {
	if (g_chance(1, 8)) { c06_retarget_race(); return; }
	qgen g; qgen_defaults(&g);
	g.oracles = O_SUSPEND | O_ONCE | O_SERIAL | O_BARRIER;
	g.opmask |= (1u << OP_SUSPEND) | (1u << OP_PAUSE);
	g.qkindmask = (1u << QK_SERIAL) | (1u << QK_CONC);
	g.min_queues = 1; g.max_queues = 3; g.inactive_pct = 30;
	g.nest_pct = 45; g.nest_depth = 2;
	g.suspend_depth_max = g_chance(1, 4) ? 200 : 8;
	g.suspend_inactive = g_chance(1, 2);
	g.min_clients = 2; g.max_clients = 4; g.min_ops = 3; g.max_ops = (RC.cfg & CFG_THOROUGH) ? 10 : 7;
	g.bodymask |= 1u << B_SLEEP;
	qprog_run(&g);
}
const prop_def prop_C06 = { "C06", NULL, c06_run, qprog_counter_names,
	"non-trivial: a suspend/resume or activation happened, >=2 items completed, and a pre-emption/stall was taken inside a queue's atomics; distinct = distinct schedule signatures among those" };

/* ---- C10: dispatch_apply ---- */
// iteration counts around the library's internal limits (DISPATCH_APPLY_MAX = 65535 participants / nesting product),
// top level and nested inside an iteration of an outer apply: too many for the item table of the queue programs, so
// the invocations are counted in a byte per index
static struct { unsigned char *cnt; size_t n; int who, inner_done; dispatch_queue_t iq; } HG;
static void huge_inner(void *ctx, size_t i) {
	(void)ctx;
	if (i >= HG.n) h_viol("apply-index", "dispatch_apply(%zu) invoked index %zu", HG.n, i);
	__atomic_add_fetch(&HG.cnt[i], 1, __ATOMIC_RELAXED);
}
static void huge_check(const char *where) {
	size_t missing = 0, twice = 0, first = HG.n;
	for (size_t i = 0; i < HG.n; i++) { if (HG.cnt[i] == 0) { missing++; if (first == HG.n) first = i; } else if (HG.cnt[i] > 1) { twice++; if (first == HG.n) first = i; } }
	if (missing || twice) h_viol("apply-count", "%s dispatch_apply(%zu) returned with %zu indices never invoked and %zu invoked more than once (first: %zu)", where, HG.n, missing, twice, first);
}
static void huge_outer(void *ctx, size_t i) {
	(void)ctx;
	if ((int)i != HG.who) { sim_point(); return; }
	dispatch_apply_f(HG.n, HG.iq, NULL, huge_inner);
	huge_check("a nested");
	HG.inner_done = 1;
}
static void c10_huge(void) {
	static const size_t ns[] = { 65534, 65535, 65536, 65537, 70000, 131072 };
	memset(&HG, 0, sizeof HG);
	HG.n = ns[g_n(6)]; HG.cnt = malloc(HG.n); memset(HG.cnt, 0, HG.n);   // (not calloc: that one is behind the allocation-fault seam)
	int nested = g_chance(2, 3), outer_n = g_range(2, 4), oqk = (int)g_n(2), iqk = (int)g_n(4);
	HG.who = (int)g_n((uint32_t)outer_n);
	dispatch_queue_t oq = oqk ? dispatch_queue_create("c10-outer", DISPATCH_QUEUE_CONCURRENT) : dispatch_get_global_queue(0, 0);
	HG.iq = iqk == 0 ? DISPATCH_APPLY_AUTO : iqk == 1 ? dispatch_get_global_queue(0, 0) : iqk == 2 ? dispatch_queue_create("c10-inner", DISPATCH_QUEUE_CONCURRENT) : dispatch_queue_create("c10-inner-serial", NULL);
	h_sample("dispatch_apply(%zu) on %s%s\n", HG.n, iqk == 0 ? "DISPATCH_APPLY_AUTO" : iqk == 1 ? "a global queue" : iqk == 2 ? "a private concurrent queue" : "a private serial queue",
		nested ? (oqk ? ", from one iteration of an outer apply on a private concurrent queue" : ", from one iteration of an outer apply on a global queue") : ", top level");
	h_announce();
	if (nested) {
		dispatch_apply_f((size_t)outer_n, oq, NULL, huge_outer);
		if (!HG.inner_done) h_viol("apply-return", "the outer dispatch_apply returned before the iteration holding the nested apply had finished");
	} else { dispatch_apply_f(HG.n, HG.iq, NULL, huge_inner); huge_check("a top-level"); }
	RES.counters[QC_APPLY_ITERS] = (int64_t)HG.n; RES.counters[QC_SYNC_CALLS] = 1;
	RES.nontrivial = sim_st.switches > 2;
}
static void c10_run(void) {
	if (g_chance(1, 40)) { c10_huge(); return; }
	qgen g; qgen_defaults(&g);
	g.oracles = O_ONCE | O_HIER | O_BARRIER;
	g.opmask = (1u << OP_APPLY) | (1u << OP_APPLY) | (1u << OP_ASYNC) | (1u << OP_BARRIER_ASYNC) | (1u << OP_SYNC);
	g.apply_weight = 60;
	g.qkindmask = (1u << QK_SERIAL) | (1u << QK_CONC) | (1u << QK_GLOBAL);
	g.min_queues = 1; g.max_queues = 4; g.max_qdepth = 3; g.width_pct = 25;
	g.min_clients = 1; g.max_clients = 3; g.min_ops = 2; g.max_ops = 6;
	g.nest_pct = 35; g.nest_depth = 3;
	g.apply_max = 64; g.apply_big = 1;
	if ((RC.cfg & CFG_THOROUGH) && g_chance(1, 10)) g.apply_max = 1000;
	qprog_run(&g);
}
const prop_def prop_C10 = { "C10", NULL, c10_run, qprog_counter_names,
	"non-trivial: at least one dispatch_apply with n >= 2 completed and a pre-emption/stall was taken; distinct = distinct schedule signatures among those (apply_iterations counts the invocations judged)" };

// C14: dispatch I/O delivers every byte once, in order; each operation completes once
#include "h.h"
#include <fcntl.h>
#include <sys/socket.h>
#include <sys/mman.h>
#include <sys/stat.h>

#define MAXIOOPS 8
#define MAXBYTES 70000
enum { CH_PIPE_READ, CH_PIPE_WRITE, CH_SOCK_READ, CH_SOCK_WRITE, CH_FILE, CH_N };
static const char *const chn[CH_N] = { "stream channel reading a pipe", "stream channel writing a pipe", "stream channel reading a socket", "stream channel writing a socket", "random-access channel on a file" };
enum { IO_READ, IO_WRITE, IO_BARRIER, IO_CLOSE, IO_STOP, IO_SET_WATER, IO_PAUSE, IO_N };
static const char *const ion[IO_N] = { "io_read", "io_write", "io_barrier", "io_close", "io_close(STOP)", "set_water", "pause" };

typedef struct ioop {
	int idx, kind; size_t len; off_t off; size_t low, high; uint64_t pause; int interval;
	// history
	uint64_t submit, first, done_stamp, done_started;
	int running, invocations, done_count, err, after_done, cancelled_notices;
	unsigned char *got; size_t ngot;            // read: bytes delivered; write: bytes reported unwritten
	size_t max_chunk; size_t high_in_force;
	int submitted, after_close, epoch;          // file channels: number of barriers that ran before it was submitted
	uint64_t barrier_start, barrier_end; size_t bytes_at_bstart, bytes_at_bend; int calls_at_bstart, calls_at_bend;
	size_t stream_pos;                          // write: position of its data in the written stream
} ioop;
static struct {
	int kind, is_read, is_stream, by_path;
	int fd, peer_fd;
	dispatch_io_t ch; dispatch_queue_t hq; int hq_serial;
	ioop ops[MAXIOOPS]; int nops;
	size_t high, low;
	// peer behaviour
	size_t peer_total, peer_chunk; uint64_t peer_pause; int peer_closes;
	unsigned char *peer_got; size_t npeer_got;
	size_t write_pos;                           // next stream position for write payloads
	int cleanup_count, cleanup_err; uint64_t cleanup_stamp;
	int closed_call; uint64_t close_stamp; int stop;
	int peer_done, client_done;
	unsigned char *file_model; size_t file_size;
	int hard_error_injected, cleanup_before_cancelled, peer_hangs_up, peer_hung_up;
	int conv;                                   // dispatch_read / dispatch_write instead of a channel
	int derived, base_cleanup_count; dispatch_io_t base;   // channel made with dispatch_io_create_with_io from one that is closed at once
	int rederived, base_ready; off_t base_pos;   // file runs: random-access channel derived from one that was created at another descriptor position (round 11, C14k)
} X;

extern void _dispatch_iocntl(uint32_t param, uint64_t value);   // private tuning knobs of the I/O subsystem (io.c)
static int io_chunk_pages;
// tuning knobs, randomised per run: with the default 1 MiB chunk every operation of these workloads fits in one chunk
// and the multi-chunk paths (and water marks above the chunk size) never run
static void io_knobs(void) {
	static const int pages[] = { 1, 1, 2, 4, 256 };
	io_chunk_pages = pages[g_n(5)];
	_dispatch_iocntl(1 /* CHUNK_PAGES */, (uint64_t)io_chunk_pages);
	_dispatch_iocntl(2 /* LOW_WATER_CHUNKS */, g_chance(1, 3) ? 2 : 1);
	_dispatch_iocntl(4 /* MAX_PENDING_IO_REQS */, g_chance(1, 3) ? (uint64_t)g_range(1, 3) : 6);
}
static const char *never_done_clause(void);
static void c14_file_run(void);
static void c14_conv_run(void);
static char known_clause[64], known_msg[400];
// deviations recorded as known findings (F13, F14, F16): remember the first, keep judging the rest of the run
static void known_dev(const char *clause, const char *fmt, ...) {
	if (known_clause[0]) return;
	snprintf(known_clause, sizeof known_clause, "%s", clause);
	va_list ap; va_start(ap, fmt); vsnprintf(known_msg, sizeof known_msg, fmt, ap); va_end(ap);
}
static const char *stepcap_clause(void) { return X.stop ? never_done_clause() : "livelock"; }
static inline unsigned char pat(size_t k) { return (unsigned char)((k * 31 + 7 + (k >> 8)) & 0xff); }

static void op_handler(ioop *op, bool done, dispatch_data_t data, int error) {
	uint64_t st = h_stamp();
	op->running++; op->invocations++;
	if (!op->first) op->first = st;
	if (done && !op->done_started) op->done_started = st;
	size_t n = data ? dispatch_data_get_size(data) : 0;
	h_log("op #%d %s handler: done=%d size=%zu error=%d", op->idx, ion[op->kind], done, n, error);
	if (op->running > 1) h_viol("handler-reentered", "the handler of %s #%d is running twice at once", ion[op->kind], op->idx);
	if (op->done_count) { op->after_done++; h_viol("after-done", "the handler of %s #%d was invoked again after it had seen done", ion[op->kind], op->idx); }
	int never_used_fd = op->after_close || op->len == 0 || (error == ECANCELED && op->invocations == 1 && (op->kind == IO_READ ? (!n && !op->ngot) : n == op->len));
	if (X.cleanup_count) (never_used_fd ? known_dev : (void (*)(const char *, const char *, ...))h_viol)(never_used_fd ? "cleanup-before-cancelled-op" : "handler-after-cleanup", "the handler of %s #%d (%s) ran after the channel's cleanup handler", ion[op->kind], op->idx, op->after_close ? "scheduled after close" : op->len == 0 ? "zero length" : never_used_fd ? "cancelled before it used the descriptor" : "scheduled before close");
	if (op->kind == IO_WRITE) op->ngot = 0;   // every invocation of a write handler reports what still remains unwritten
	if (n) {
		if (op->ngot + n > MAXBYTES) h_viol("too-much-data", "%s #%d: more than %d bytes", ion[op->kind], op->idx, MAXBYTES);
		const void *p; size_t sz;
		dispatch_data_t map = dispatch_data_create_map(data, &p, &sz);
		if (sz != n) h_viol("harness", "map size");
		memcpy(op->got + op->ngot, p, n); op->ngot += n;
		dispatch_release(map);
		if (op->kind == IO_READ) {
			if (n > op->max_chunk) op->max_chunk = n;
			if (op->high_in_force && n > op->high_in_force)
				h_viol("high-water", "io_read #%d delivered %zu bytes in one invocation, high-water mark is %zu", op->idx, n, op->high_in_force);
			if (op->ngot > op->len) h_viol("too-much-data", "io_read #%d was asked for %zu bytes and has been given %zu", op->idx, op->len, op->ngot);
		}
	}
	if (error) op->err = error;
	if (X.stop && !done && error == ECANCELED && ++op->cancelled_notices > 1500) {
		// an interval timer keeps delivering (not done, ECANCELED) for ever: the operation is stuck after STOP
		char b[160]; snprintf(b, sizeof b, "%s #%d has been told ECANCELED %d times by its interval timer after close(STOP) but never sees done", ion[op->kind], op->idx, op->cancelled_notices);
		h_stuck(never_done_clause(), b);
	}
	sim_point();
	if (done) { op->done_count++; op->done_stamp = h_stamp(); }
	op->running--;
	h_progress();
}

static void *peer_thread(void *arg) {
	(void)arg;
	if (!X.is_stream) { X.peer_done = 1; return NULL; }
	if (X.is_read) {
		// the peer produces the stream
		size_t sent = 0; unsigned char buf[4096];
		while (sent < X.peer_total) {
			size_t n = X.peer_chunk; if (n > X.peer_total - sent) n = X.peer_total - sent; if (n > sizeof buf) n = sizeof buf;
			for (size_t i = 0; i < n; i++) buf[i] = pat(sent + i);
			ssize_t w = sim_io_write(X.peer_fd, buf, n);
			if (w < 0) { if (errno == EAGAIN) { sim_sleep_ns(50 * USEC); continue; } break; }
			sent += (size_t)w;
			sim_sleep_ns(X.peer_pause);
		}
		if (X.peer_closes) { h_log("peer closes after %zu bytes", sent); sim_io_peer_closed(X.fd); sim_io_close(X.peer_fd); X.peer_fd = -1; }
	} else {
		// the peer consumes what the channel writes
		unsigned char buf[4096];
		for (;;) {
			size_t want = X.peer_chunk < sizeof buf ? X.peer_chunk : sizeof buf;
			if (sim_io_wait_readable(X.peer_fd, 200 * MSEC)) { if (X.cleanup_count) break; else continue; }
			ssize_t r = read(X.peer_fd, buf, want);
			if (r == 0) break;
			if (r < 0) { if (errno == EAGAIN || errno == EINTR) continue; break; }
			if (X.npeer_got + (size_t)r <= MAXBYTES) { memcpy(X.peer_got + X.npeer_got, buf, (size_t)r); X.npeer_got += (size_t)r; }
			if (X.peer_hangs_up && X.npeer_got >= X.peer_total) {
				// the consumer goes away with the channel's writes possibly still in flight
				h_log("peer closes its (reading) end after %zu bytes", X.npeer_got);
				sim_io_peer_closed(X.fd); sim_io_close(X.peer_fd); X.peer_fd = -1; X.peer_hung_up = 1;
				break;
			}
			sim_sleep_ns(X.peer_pause);
		}
	}
	X.peer_done = 1; h_progress();
	return NULL;
}

// why are operations still pending after close(STOP)?  known finding F15: the cancellation is queued behind a pending
// barrier, which itself waits for the very operations that STOP was meant to cancel
static const char *never_done_clause(void) {
	int pending_barrier = 0, blocked = 0;
	for (int i = 0; i < X.nops; i++) { ioop *op = &X.ops[i];
		if (op->kind == IO_BARRIER && op->submitted && !op->barrier_start) pending_barrier = 1;
		if ((op->kind == IO_READ || op->kind == IO_WRITE) && op->submitted && !op->done_count) blocked = 1; }
	return pending_barrier && blocked ? "never-done-stop-behind-barrier" : "never-done";
}
static void submit_op(ioop *op) {
	op->submit = h_stamp(); op->submitted = 1;
	op->after_close = X.closed_call;
	op->high_in_force = X.high;
	h_log("submit #%d %s len=%zu off=%ld%s", op->idx, ion[op->kind], op->len, (long)op->off, op->after_close ? " (after close)" : "");
	switch (op->kind) {
	case IO_READ:
		if (X.conv) dispatch_read(X.fd, op->len, X.hq, ^(dispatch_data_t data, int error) { op_handler(op, true, data, error); });
		else dispatch_io_read(X.ch, op->off, op->len, X.hq, ^(bool done, dispatch_data_t data, int error) { op_handler(op, done, data, error); });
		break;
	case IO_WRITE: {
		unsigned char *buf = malloc(op->len ? op->len : 1);
		if (X.is_stream) { op->stream_pos = X.write_pos; for (size_t i = 0; i < op->len; i++) buf[i] = pat(X.write_pos + i); X.write_pos += op->len; }
		else for (size_t i = 0; i < op->len; i++) buf[i] = pat((size_t)op->off + i + 1000 * (size_t)op->idx);
		dispatch_data_t d = dispatch_data_create(buf, op->len, NULL, DISPATCH_DATA_DESTRUCTOR_FREE);
		if (g_chance(1, 3) && op->len > 4) {
			// fragmented data object
			dispatch_data_t a = dispatch_data_create_subrange(d, 0, op->len / 2), b = dispatch_data_create_subrange(d, op->len / 2, op->len - op->len / 2);
			dispatch_data_t c = dispatch_data_create_concat(a, b); dispatch_release(a); dispatch_release(b); dispatch_release(d); d = c;
		}
		if (X.conv) dispatch_write(X.fd, d, X.hq, ^(dispatch_data_t data, int error) { op_handler(op, true, data, error); });
		else dispatch_io_write(X.ch, op->off, d, X.hq, ^(bool done, dispatch_data_t data, int error) { op_handler(op, done, data, error); });
		dispatch_release(d);
		break; }
	case IO_BARRIER:
		dispatch_io_barrier(X.ch, ^{
			unsigned char *lp; op->barrier_start = h_stamp(); op->bytes_at_bstart = sim_io_log(X.fd, &lp); op->calls_at_bstart = sim_io_ncalls;
			h_log("barrier #%d starts", op->idx);
			sim_point(); sim_sleep_ns(30 * USEC);
			op->bytes_at_bend = sim_io_log(X.fd, &lp); op->calls_at_bend = sim_io_ncalls; op->barrier_end = h_stamp(); op->done_count = 1; op->done_stamp = op->barrier_end;
			h_log("barrier #%d ends", op->idx);
			h_progress();
		});
		break;
	case IO_CLOSE: case IO_STOP:
		X.closed_call = 1; X.close_stamp = op->submit; if (op->kind == IO_STOP) X.stop = 1;
		dispatch_io_close(X.ch, op->kind == IO_STOP ? DISPATCH_IO_STOP : 0);
		op->done_count = 1;
		break;
	case IO_SET_WATER:
		if (op->high) { dispatch_io_set_high_water(X.ch, op->high); X.high = op->high; if (X.low > X.high) X.low = X.high; }
		if (op->low) { dispatch_io_set_low_water(X.ch, op->low); X.low = op->low; if (X.high && X.high < X.low) X.high = X.low; }
		if (op->interval) dispatch_io_set_interval(X.ch, (uint64_t)op->interval * USEC, op->interval & 1 ? DISPATCH_IO_STRICT_INTERVAL : 0);
		op->done_count = 1;
		break;
	case IO_PAUSE: sim_sleep_ns(op->pause); op->done_count = 1; break;
	}
}
static void *client_thread(void *arg) {
	(void)arg;
	for (int i = 0; i < X.nops; i++) { if (!op_on(X.ops[i].idx)) continue; submit_op(&X.ops[i]); sim_point(); }
	X.client_done = 1; h_progress();
	return NULL;
}
static bool io_done(void *c) {
	(void)c;
	if (!X.client_done) return false;
	for (int i = 0; i < X.nops; i++) { ioop *op = &X.ops[i]; if (op->submitted && !op->done_count) return false; }
	return true;
}
static bool io_cleaned(void *c) { (void)c; return X.cleanup_count > 0; }
static bool base_is_ready(void *c) { (void)c; return X.base_ready != 0; }

static void judge(void) {
	unsigned char *log; size_t nlog = sim_io_log(X.fd, &log);
	int hard = sim_st.iofault[IOF_EIO] + sim_st.iofault[IOF_ENOSPC] + sim_st.iofault[IOF_EPIPE] > 0 || sim_st.fired[K_ALLOC] > 0 || X.peer_hung_up;
	if (X.is_stream && X.is_read) {
		// delivered data of the operations, concatenated in submission order, is exactly what was consumed
		size_t pos = 0;
		for (int i = 0; i < X.nops; i++) {
			ioop *op = &X.ops[i]; if (op->kind != IO_READ || !op->submitted) continue;
			for (size_t k = 0; k < op->ngot; k++) if (op->got[k] != pat(pos + k))
				h_viol("wrong-bytes", "io_read #%d: byte %zu of its data is 0x%02x, the stream has 0x%02x at position %zu (bytes lost, duplicated or reordered)", op->idx, k, op->got[k], pat(pos + k), pos + k);
			pos += op->ngot;
			if (op->after_close && (op->ngot || op->err != ECANCELED)) (op->len == 0 ? known_dev : (void (*)(const char *, const char *, ...))h_viol)(op->len == 0 ? "zero-length-op-closed" : "closed-channel", "io_read #%d (length %zu) was scheduled on a closed channel but completed with error %d and %zu bytes", op->idx, op->len, op->err, op->ngot);
			// (a dispatch_read completes with what is available once it has read something: no short-read clause for it)
			if (!X.conv && !op->err && !X.stop && op->ngot < op->len && !(X.peer_closes && pos >= X.peer_total) && !hard)
				h_viol("short-read", "io_read #%d completed without error with %zu of %zu bytes although the stream had not ended", op->idx, op->ngot, op->len);
		}
		if (pos != nlog && !hard && !X.stop)
			h_viol("consumed-mismatch", "the operations were given %zu bytes in total but %zu bytes were consumed from the descriptor", pos, nlog);
		if (pos > nlog) h_viol("consumed-mismatch", "the operations were given %zu bytes but only %zu were consumed from the descriptor", pos, nlog);
	}
	if (X.is_stream && !X.is_read) {
		size_t wpos = 0;   // position in the descriptor's byte stream
		for (int i = 0; i < X.nops; i++) {
			ioop *op = &X.ops[i]; if (op->kind != IO_WRITE || !op->submitted) continue;
			if (op->ngot > op->len) h_viol("unwritten-too-long", "io_write #%d reported %zu unwritten bytes of %zu", op->idx, op->ngot, op->len);
			size_t written = op->len - op->ngot;
			// the unwritten data is the tail of what was submitted
			for (size_t k = 0; k < op->ngot; k++) if (op->got[k] != pat(op->stream_pos + written + k))
				h_viol("wrong-bytes", "io_write #%d: the data reported as unwritten is not the tail of the submitted data (byte %zu)", op->idx, k);
			if (wpos + written > nlog) h_viol("written-mismatch", "io_write #%d reports %zu bytes written but the descriptor has only accepted %zu bytes after the earlier writes", op->idx, written, nlog - wpos);
			for (size_t k = 0; k < written; k++) if (log[wpos + k] != pat(op->stream_pos + k))
				h_viol("wrong-bytes", "io_write #%d: byte %zu that reached the descriptor is 0x%02x, submitted 0x%02x", op->idx, k, log[wpos + k], pat(op->stream_pos + k));
			wpos += written;
			if (op->after_close && (written || op->err != ECANCELED)) (op->len == 0 ? known_dev : (void (*)(const char *, const char *, ...))h_viol)(op->len == 0 ? "zero-length-op-closed" : "closed-channel", "io_write #%d (length %zu) was scheduled on a closed channel but completed with error %d having written %zu bytes", op->idx, op->len, op->err, written);
			if (!op->err && op->ngot) h_viol("unwritten-without-error", "io_write #%d reported %zu unwritten bytes without an error", op->idx, op->ngot);
		}
		if (wpos != nlog) h_viol("written-mismatch", "%zu bytes reached the descriptor but the operations account for %zu", nlog, wpos);
		if (X.npeer_got > nlog) h_viol("harness", "peer got more than written");
	}
	// completion order of stream operations (judged on the done invocations when they share a serial queue)
	if (X.is_stream && X.hq_serial) {
		uint64_t last = 0; int lasti = -1, lasterr = 0;
		for (int i = 0; i < X.nops; i++) {
			ioop *op = &X.ops[i]; if ((op->kind != IO_READ && op->kind != IO_WRITE) || !op->submitted || op->after_close) continue;
			if (op->done_stamp < last) known_dev(op->len == 0 ? "zero-length-op-order" : (X.stop && (op->err == ECANCELED || lasterr == ECANCELED)) ? "completion-order-after-stop" : "completion-order-handlers-only", "%s #%d (length %zu) was submitted after #%d but completed before it", ion[op->kind], op->idx, op->len, lasti);
			if (op->len) { last = op->done_stamp; lasti = op->idx; lasterr = op->err; }
		}
	}
	// barriers, at the I/O seam
	for (int i = 0; i < X.nops; i++) {
		ioop *b = &X.ops[i]; if (b->kind != IO_BARRIER || !b->submitted || !b->barrier_start || b->after_close) continue;
		for (int c = b->calls_at_bstart; c < b->calls_at_bend && c < sim_io_ncalls; c++)
			if (sim_io_calls[c].fd == X.fd) h_viol("barrier-io", "a %s system call on the channel's descriptor happened while barrier #%d was running", sim_io_calls[c].is_write ? "write" : "read", b->idx);
		// completions too: whatever was submitted behind the barrier -- also an operation that moves no bytes, or one that
		// is refused because the channel has been closed meanwhile -- does not see done before the barrier has run
		for (int j = i + 1; j < X.nops; j++) {
			ioop *op = &X.ops[j]; if ((op->kind != IO_READ && op->kind != IO_WRITE) || !op->submitted || !op->done_count) continue;
			if (op->done_started && op->done_started < b->barrier_start)
				h_viol("barrier-order", "%s #%d (length %zu) was submitted after barrier #%d but its handler saw done before the barrier ran", ion[op->kind], op->idx, op->len, b->idx);
		}
		if (X.is_stream) {
			size_t pos = 0;
			for (int j = 0; j < X.nops; j++) {
				ioop *op = &X.ops[j]; if ((op->kind != IO_READ && op->kind != IO_WRITE) || !op->submitted) continue;
				size_t moved = op->kind == IO_READ ? op->ngot : op->len - op->ngot;
				if (j < i && pos + moved > b->bytes_at_bstart && moved)
					h_viol("barrier-order", "%s #%d was submitted before barrier #%d but %zu of its bytes moved after the barrier had started", ion[op->kind], op->idx, b->idx, pos + moved - b->bytes_at_bstart);
				if (j > i && pos < b->bytes_at_bend && moved)
					h_viol("barrier-order", "%s #%d was submitted after barrier #%d but its I/O began before the barrier ended", ion[op->kind], op->idx, b->idx);
				pos += moved;
			}
		}
	}
	for (int i = 0; i < X.nops; i++) {
		ioop *op = &X.ops[i];
		if ((op->kind == IO_READ || op->kind == IO_WRITE) && op->submitted && op->done_count != 1) h_viol("done-count", "%s #%d saw done %d times", ion[op->kind], op->idx, op->done_count);
		if ((op->kind == IO_READ || op->kind == IO_WRITE) && op->submitted && X.cleanup_stamp && (X.hq_serial ? op->done_stamp : op->done_started) > X.cleanup_stamp) ((op->after_close || op->len == 0 || (op->err == ECANCELED && op->invocations == 1 && (op->kind == IO_READ ? !op->ngot : op->ngot == op->len))) ? known_dev : (void (*)(const char *, const char *, ...))h_viol)((op->after_close || op->len == 0 || (op->err == ECANCELED && op->invocations == 1 && (op->kind == IO_READ ? !op->ngot : op->ngot == op->len))) ? "cleanup-before-cancelled-op" : "handler-after-cleanup", "%s #%d completed after the cleanup handler", ion[op->kind], op->idx);
	}
}

static void c14_run(void) {
	memset(&X, 0, sizeof X);
	h_stepcap_clause = stepcap_clause;
	bool big = RC.cfg & CFG_THOROUGH;
	io_knobs();
	if (g_chance(1, 6)) { c14_file_run(); return; }
	if (g_chance(1, 8)) { c14_conv_run(); return; }
	X.kind = (int)g_n(CH_N - 1);   // file channels: see c14_file below
	X.is_stream = 1; X.is_read = (X.kind == CH_PIPE_READ || X.kind == CH_SOCK_READ);
	X.hq_serial = g_chance(2, 3);
	X.peer_total = g_chance(1, 5) ? 0 : (size_t)g_range(1, big ? 30000 : 9000);
	X.peer_chunk = (size_t)g_range(1, 3000); X.peer_pause = (uint64_t)g_range(0, 120) * USEC; X.peer_closes = g_chance(2, 3);
	// at most ~1500 arrivals per run: tens of thousands of one-byte arrivals exhaust the step budget (a false
	// "livelock" of the machinery in the first thorough soak), and add nothing after the first few hundred
	if (X.peer_total / X.peer_chunk > 1500) X.peer_chunk = X.peer_total / 1500 + 1;
	X.peer_hangs_up = !X.is_read && g_chance(1, 4);
	X.derived = g_chance(1, 6);
	X.nops = g_range(1, 6);
	int idx = 0;
	for (int i = 0; i < X.nops; i++) {
		ioop *op = &X.ops[i]; memset(op, 0, sizeof *op); op->idx = idx++;
		uint32_t r = g_n(100);
		if (r < 55) { op->kind = X.is_read ? IO_READ : IO_WRITE; op->len = g_chance(1, 25) ? 0 : (size_t)g_range(1, big ? 20000 : 6000); if (X.is_read && g_chance(1, 6)) op->len = SIZE_MAX; }
		else if (r < 68) op->kind = IO_BARRIER;
		else if (r < 80) { op->kind = IO_SET_WATER; op->high = g_chance(2, 3) ? (size_t)g_range(1, 2000) : 0; op->low = g_chance(1, 2) ? (size_t)g_range(1, 1500) : 0; op->interval = g_chance(1, 3) ? g_range(300, 2000) : 0;
			// marks above the chunk size: low water between one and two chunks, high water between low and low + chunk
			if (io_chunk_pages <= 4 && g_chance(1, 3)) { size_t ch = (size_t)io_chunk_pages * 4096; op->low = ch + (size_t)g_n((uint32_t)ch); op->high = op->low + (size_t)g_n((uint32_t)ch); } }
		else if (r < 88) { op->kind = IO_PAUSE; op->pause = (uint64_t)g_range(5, 400) * USEC; }
		else if (r < 94) op->kind = IO_CLOSE;
		else op->kind = IO_STOP;
		op->got = malloc(MAXBYTES);
	}
	h_sample("[chunk %d page(s)] ", io_chunk_pages);
	h_sample("%s%s; handlers on a %s queue; peer: %zu bytes in chunks of %zu every %lu us%s\n", chn[X.kind], X.derived ? " (made with dispatch_io_create_with_io from a channel that is closed at once)" : "", X.hq_serial ? "serial" : "global", X.peer_total, X.peer_chunk, (unsigned long)(X.peer_pause / 1000),
		X.is_read ? (X.peer_closes ? ", then closes" : ", stays open") : (X.peer_hangs_up ? ", then closes its reading end" : ", keeps reading"));
	for (int i = 0; i < X.nops; i++) if (op_on(X.ops[i].idx)) {
		ioop *op = &X.ops[i];
		h_sample(" #%d %s", op->idx, ion[op->kind]);
		if (op->kind == IO_READ || op->kind == IO_WRITE) { if (op->len == SIZE_MAX) h_sample("(SIZE_MAX)"); else h_sample("(%zu)", op->len); }
		if (op->kind == IO_SET_WATER) h_sample("(high %zu low %zu interval %d)", op->high, op->low, op->interval);
		h_sample("\n");
	}
	h_announce();
	int fds[2];
	if (X.kind == CH_PIPE_READ || X.kind == CH_PIPE_WRITE) { if (pipe2(fds, O_NONBLOCK)) h_viol("harness", "pipe"); if (X.kind == CH_PIPE_WRITE) { int t = fds[0]; fds[0] = fds[1]; fds[1] = t; } }
	else if (socketpair(AF_UNIX, SOCK_STREAM | SOCK_NONBLOCK, 0, fds)) h_viol("harness", "socketpair");
	X.fd = fds[0]; X.peer_fd = fds[1];
	// small kernel buffers, so that writes of a few kilobytes really meet a full pipe / socket (partial writes, EAGAIN)
	if (g_chance(3, 4)) {
		if (X.kind == CH_PIPE_READ || X.kind == CH_PIPE_WRITE) fcntl(X.is_read ? X.peer_fd : X.fd, F_SETPIPE_SZ, 4096);
		else { int sz = 2304; setsockopt(X.fd, SOL_SOCKET, SO_SNDBUF, &sz, sizeof sz); setsockopt(X.peer_fd, SOL_SOCKET, SO_SNDBUF, &sz, sizeof sz); setsockopt(X.fd, SOL_SOCKET, SO_RCVBUF, &sz, sizeof sz); setsockopt(X.peer_fd, SOL_SOCKET, SO_RCVBUF, &sz, sizeof sz); }
	}
	X.peer_got = malloc(MAXBYTES);
	sim_io_watch(X.fd, 1);
	X.hq = X.hq_serial ? dispatch_queue_create("io-handlers", NULL) : dispatch_get_global_queue(0, 0);
	X.ch = dispatch_io_create(DISPATCH_IO_STREAM, X.fd, X.hq, ^(int error) {
		X.cleanup_count++; X.cleanup_err = error; X.cleanup_stamp = h_stamp();
		h_log("cleanup handler error=%d", error);
		for (int i = 0; i < X.nops; i++) { ioop *op = &X.ops[i]; if ((op->kind == IO_READ || op->kind == IO_WRITE) && op->submitted && !op->done_started) { if (op->after_close || op->len == 0 || (X.closed_call && !op->ngot && !op->first)) X.cleanup_before_cancelled++; else h_viol("cleanup-early", "the cleanup handler started before the final (done) invocation of %s #%d had started", ion[op->kind], op->idx); } }
		h_progress();
	});
	if (!X.ch) h_viol("create", "dispatch_io_create failed");
	if (X.derived) {
		// the operations go through a channel derived from the first one, which is closed and released at once: the
		// descriptor must stay open and usable until the derived channel is done, and each cleanup handler runs once
		X.base = X.ch;
		X.ch = dispatch_io_create_with_io(DISPATCH_IO_STREAM, X.base, X.hq, ^(int error) { (void)error; X.base_cleanup_count++; h_log("cleanup handler of the derived channel"); h_progress(); });
		if (!X.ch) h_viol("create", "dispatch_io_create_with_io failed");
		dispatch_io_close(X.base, 0); dispatch_release(X.base);
	}
	sim_thread *th[2];
	th[0] = sim_spawn(peer_thread, NULL, "peer");
	th[1] = sim_spawn(client_thread, NULL, "io-client");
	h_end_fault_phase(th + 1, 1, 2 * NSEC);
	// operations that can still complete on their own get a while; then the channel is closed (STOP if it must be)
	if (h_wait_until(io_done, NULL, 300 * MSEC)) {
		if (X.peer_hung_up) {
			// the reader is gone: pending writes can never make progress and must be completed with an error
			int pending_barrier = 0;
			for (int i = 0; i < X.nops; i++) if (X.ops[i].kind == IO_BARRIER && X.ops[i].submitted && !X.ops[i].barrier_start) pending_barrier = 1;
			if (h_wait_until(io_done, NULL, LIVENESS_NS) && !pending_barrier) {
				char b[200]; size_t o = 0;
				for (int i = 0; i < X.nops; i++) { ioop *op = &X.ops[i]; if (op->submitted && !op->done_count && o + 40 < sizeof b) o += (size_t)snprintf(b + o, sizeof b - o, "%s #%d never saw done; ", ion[op->kind], op->idx); }
				h_stuck("hangup-not-delivered", b);
			}
		}
		if (!X.closed_call || !X.stop) { h_log("controller: close(STOP)"); X.closed_call = 1; X.stop = 1; X.close_stamp = h_stamp(); dispatch_io_close(X.ch, DISPATCH_IO_STOP); }
		// cancellation by STOP needs no I/O: 5 simulated seconds are ample (and an interval timer may be ticking)
		if (h_wait_until(io_done, NULL, 5 * NSEC)) {
			char b[200]; size_t o = 0;
			for (int i = 0; i < X.nops; i++) { ioop *op = &X.ops[i]; if (op->submitted && !op->done_count && o + 40 < sizeof b) o += (size_t)snprintf(b + o, sizeof b - o, "%s #%d never saw done; ", ion[op->kind], op->idx); }
			h_stuck(never_done_clause(), b);
		}
	}
	if (!X.closed_call) { X.closed_call = 1; X.close_stamp = h_stamp(); dispatch_io_close(X.ch, 0); }
	dispatch_release(X.ch);
	if (h_wait_until(io_cleaned, NULL, LIVENESS_NS)) h_stuck("no-cleanup", "the channel's cleanup handler did not run after close and release");
	if (X.peer_fd >= 0 && !X.is_read) { /* let the consumer drain */ }
	h_settle(20 * MSEC);
	if (X.cleanup_count != 1) h_viol("cleanup-count", "the cleanup handler ran %d times", X.cleanup_count);
	if (X.derived) {
		uint64_t t0 = sim_now(); while (!X.base_cleanup_count && sim_now() - t0 < LIVENESS_NS) sim_sleep_ns(20 * MSEC);
		if (X.base_cleanup_count != 1) h_viol("cleanup-count", "the cleanup handler of the channel made with dispatch_io_create_with_io ran %d times", X.base_cleanup_count);
	}
	if (!X.is_read) { close(X.fd); uint64_t t0 = sim_now(); while (!X.peer_done && sim_now() - t0 < 2 * NSEC) sim_sleep_ns(20 * MSEC); }
	judge();
	if (known_clause[0]) h_viol(known_clause, "%s", known_msg);
	size_t tot = 0; for (int i = 0; i < X.nops; i++) tot += X.ops[i].ngot;
	RES.counters[0] = X.nops; RES.counters[1] = (int64_t)tot; RES.counters[2] = sim_io_ncalls; RES.counters[3] = X.stop; RES.counters[6] = X.derived;
	RES.nontrivial = sim_io_ncalls >= 2 && sim_st.switches > 10;
}

/* ---- dispatch_read / dispatch_write on a pipe or socket: each call is one operation whose handler runs once ---- */
static void c14_conv_run(void) {
	bool big = RC.cfg & CFG_THOROUGH;
	X.conv = 1;
	X.kind = (int)g_n(CH_N - 1); X.is_stream = 1; X.is_read = (X.kind == CH_PIPE_READ || X.kind == CH_SOCK_READ);
	X.hq_serial = g_chance(2, 3);
	X.peer_total = g_chance(1, 6) ? 0 : (size_t)g_range(1, big ? 30000 : 9000);
	X.peer_chunk = (size_t)g_range(1, 3000); X.peer_pause = (uint64_t)g_range(0, 120) * USEC;
	if (X.peer_total / X.peer_chunk > 1500) X.peer_chunk = X.peer_total / 1500 + 1;
	X.peer_closes = 1;                            // end of file completes whatever the reads still ask for
	X.peer_hangs_up = !X.is_read && g_chance(1, 5);
	X.nops = g_range(1, 5);
	int idx = 0;
	for (int i = 0; i < X.nops; i++) {
		ioop *op = &X.ops[i]; memset(op, 0, sizeof *op); op->idx = idx++; op->got = malloc(MAXBYTES);
		if (g_chance(1, 5)) { op->kind = IO_PAUSE; op->pause = (uint64_t)g_range(5, 400) * USEC; continue; }
		op->kind = X.is_read ? IO_READ : IO_WRITE;
		op->len = g_chance(1, 25) ? 0 : (size_t)g_range(1, big ? 20000 : 6000);
		if (X.is_read && g_chance(1, 6)) op->len = SIZE_MAX;
	}
	h_sample("dispatch_%s on a %s; handlers on a %s queue; peer: %zu bytes in chunks of %zu every %lu us%s\n", X.is_read ? "read" : "write", (X.kind == CH_PIPE_READ || X.kind == CH_PIPE_WRITE) ? "pipe" : "socket",
		X.hq_serial ? "serial" : "global", X.peer_total, X.peer_chunk, (unsigned long)(X.peer_pause / 1000), X.is_read ? ", then closes" : (X.peer_hangs_up ? ", then closes its reading end" : ", keeps reading"));
	for (int i = 0; i < X.nops; i++) if (op_on(X.ops[i].idx)) {
		ioop *op = &X.ops[i];
		h_sample(" #%d %s", op->idx, op->kind == IO_PAUSE ? "pause" : X.is_read ? "dispatch_read" : "dispatch_write");
		if (op->kind != IO_PAUSE) { if (op->len == SIZE_MAX) h_sample("(SIZE_MAX)"); else h_sample("(%zu)", op->len); }
		h_sample("\n");
	}
	h_announce();
	int fds[2];
	if (X.kind == CH_PIPE_READ || X.kind == CH_PIPE_WRITE) { if (pipe2(fds, O_NONBLOCK)) h_viol("harness", "pipe"); if (X.kind == CH_PIPE_WRITE) { int t = fds[0]; fds[0] = fds[1]; fds[1] = t; } }
	else if (socketpair(AF_UNIX, SOCK_STREAM | SOCK_NONBLOCK, 0, fds)) h_viol("harness", "socketpair");
	X.fd = fds[0]; X.peer_fd = fds[1];
	if (g_chance(3, 4)) {
		if (X.kind == CH_PIPE_READ || X.kind == CH_PIPE_WRITE) fcntl(X.is_read ? X.peer_fd : X.fd, F_SETPIPE_SZ, 4096);
		else { int sz = 2304; setsockopt(X.fd, SOL_SOCKET, SO_SNDBUF, &sz, sizeof sz); setsockopt(X.peer_fd, SOL_SOCKET, SO_SNDBUF, &sz, sizeof sz); setsockopt(X.fd, SOL_SOCKET, SO_RCVBUF, &sz, sizeof sz); setsockopt(X.peer_fd, SOL_SOCKET, SO_RCVBUF, &sz, sizeof sz); }
	}
	X.peer_got = malloc(MAXBYTES);
	sim_io_watch(X.fd, 1);
	X.hq = X.hq_serial ? dispatch_queue_create("io-handlers", NULL) : dispatch_get_global_queue(0, 0);
	sim_thread *th[2];
	th[0] = sim_spawn(peer_thread, NULL, "peer");
	th[1] = sim_spawn(client_thread, NULL, "io-client");
	h_end_fault_phase(th + 1, 1, 2 * NSEC);
	if (h_wait_until(io_done, NULL, LIVENESS_NS)) {
		char b[200]; size_t o = 0;
		for (int i = 0; i < X.nops; i++) { ioop *op = &X.ops[i]; if (op->submitted && !op->done_count && o + 50 < sizeof b) o += (size_t)snprintf(b + o, sizeof b - o, "the handler of dispatch_%s #%d never ran; ", X.is_read ? "read" : "write", op->idx); }
		h_stuck("never-done", b);
	}
	h_settle(20 * MSEC);
	// the descriptor is the caller's again once the handlers have run
	if (!X.is_read) { close(X.fd); uint64_t t0 = sim_now(); while (!X.peer_done && sim_now() - t0 < 2 * NSEC) sim_sleep_ns(20 * MSEC); }
	judge();
	if (known_clause[0]) h_viol(known_clause, "%s", known_msg);
	size_t tot = 0; for (int i = 0; i < X.nops; i++) tot += X.ops[i].ngot;
	RES.counters[0] = X.nops; RES.counters[1] = (int64_t)tot; RES.counters[2] = sim_io_ncalls; RES.counters[5] = 1;
	RES.nontrivial = sim_io_ncalls >= 2 && sim_st.switches > 10;
}
/* ---- random-access channel on a regular file (memfd): reads and writes at offsets, regions of one epoch are
 * disjoint, epochs are separated by barriers; the file is compared with a model at every barrier and at the end ---- */
// a second channel on another file of the same device, never closed or stopped while its operations are in flight:
// whatever happens to the channel under test (close, STOP, errors), these two operations move exactly their bytes
static struct { int on, fd; dispatch_io_t ch; size_t size, half; unsigned char *rgot; size_t nrgot, wleft; int rdone, rerr, wdone, werr, cleanup; } Y;
static inline unsigned char ypat(size_t k) { return (unsigned char)(pat(k) ^ 0x5a); }
static bool by_done(void *c) { (void)c; return Y.rdone && Y.wdone; }
static bool by_cleaned(void *c) { (void)c; return Y.cleanup > 0; }
static void bystander_start(void) {
	Y.size = (size_t)g_range(8000, MAXBYTES - 10000); Y.half = Y.size / 2;
	unsigned char *init = malloc(Y.size); for (size_t k = 0; k < Y.size; k++) init[k] = ypat(k);
	Y.fd = memfd_create("c14-bystander", 0);
	if (Y.fd < 0 || write(Y.fd, init, Y.size) != (ssize_t)Y.size) h_viol("harness", "memfd");
	lseek(Y.fd, 0, SEEK_SET); free(init);
	Y.rgot = malloc(MAXBYTES);
	Y.ch = dispatch_io_create(DISPATCH_IO_RANDOM, Y.fd, X.hq, ^(int error) { (void)error; Y.cleanup++; h_progress(); });
	if (!Y.ch) h_viol("create", "dispatch_io_create failed");
	dispatch_io_read(Y.ch, 0, Y.half, X.hq, ^(bool done, dispatch_data_t data, int error) {
		if (Y.rdone) h_viol("after-done", "the read handler of the second channel was invoked again after it had seen done");
		size_t n = data ? dispatch_data_get_size(data) : 0;
		if (n) { if (Y.nrgot + n > MAXBYTES) h_viol("too-much-data", "second channel: more than %d bytes", MAXBYTES);
			const void *ptr; size_t sz; dispatch_data_t map = dispatch_data_create_map(data, &ptr, &sz); memcpy(Y.rgot + Y.nrgot, ptr, n); Y.nrgot += n; dispatch_release(map); }
		if (error) Y.rerr = error;
		if (done) { Y.rdone++; h_log("second channel: read done with %zu of %zu bytes, error %d", Y.nrgot, Y.half, Y.rerr); }
		h_progress();
	});
	unsigned char *buf = malloc(Y.size - Y.half); for (size_t k = 0; k < Y.size - Y.half; k++) buf[k] = (unsigned char)(ypat(Y.half + k) + 1);
	dispatch_data_t d = dispatch_data_create(buf, Y.size - Y.half, NULL, DISPATCH_DATA_DESTRUCTOR_FREE);
	dispatch_io_write(Y.ch, (off_t)Y.half, d, X.hq, ^(bool done, dispatch_data_t data, int error) {
		if (Y.wdone) h_viol("after-done", "the write handler of the second channel was invoked again after it had seen done");
		Y.wleft = data ? dispatch_data_get_size(data) : 0;
		if (error) Y.werr = error;
		if (done) { Y.wdone++; h_log("second channel: write done with %zu of %zu bytes unwritten, error %d", Y.wleft, Y.size - Y.half, Y.werr); }
		h_progress();
	});
	dispatch_release(d);
}
static void bystander_judge(void) {
	if (h_wait_until(by_done, NULL, LIVENESS_NS)) h_stuck("never-done", "an operation of a second channel on the same device (never closed or stopped) never saw done");
	if (Y.rerr || Y.werr) h_viol("bystander-error", "an operation of a channel that was never closed or stopped completed with error %d (the other channel on the same device was %s)", Y.rerr ? Y.rerr : Y.werr, X.stop ? "stopped" : X.closed_call ? "closed" : "left alone");
	if (Y.nrgot != Y.half) h_viol("short-read", "a read of %zu bytes on a channel that was never closed or stopped completed without error with %zu bytes (the other channel on the same device was %s)", Y.half, Y.nrgot, X.stop ? "stopped" : X.closed_call ? "closed" : "left alone");
	for (size_t k = 0; k < Y.nrgot; k++) if (Y.rgot[k] != ypat(k)) h_viol("wrong-bytes", "second channel: byte %zu read is 0x%02x, the file has 0x%02x", k, Y.rgot[k], ypat(k));
	if (Y.wleft) h_viol("unwritten-without-error", "a write on a channel that was never closed or stopped reported %zu unwritten bytes without an error", Y.wleft);
	unsigned char *buf = malloc(Y.size);
	if (pread(Y.fd, buf, Y.size, 0) != (ssize_t)Y.size) h_viol("harness", "pread of the second file failed");
	for (size_t k = 0; k < Y.size; k++) { unsigned char want = k < Y.half ? ypat(k) : (unsigned char)(ypat(k) + 1);
		if (buf[k] != want) h_viol("file-contents", "second channel: its write completed without error and nothing unwritten, but byte %zu of the file is 0x%02x, not 0x%02x (the other channel on the same device was %s)", k, buf[k], want, X.stop ? "stopped" : X.closed_call ? "closed" : "left alone"); }
	free(buf);
	dispatch_io_close(Y.ch, 0); dispatch_release(Y.ch);
	if (h_wait_until(by_cleaned, NULL, LIVENESS_NS)) h_stuck("no-cleanup", "the cleanup handler of the second channel did not run after close and release");
	h_settle(5 * MSEC);
	if (Y.cleanup != 1) h_viol("cleanup-count", "the cleanup handler of the second channel ran %d times", Y.cleanup);
	if (Y.rdone != 1 || Y.wdone != 1) h_viol("done-count", "operations of the second channel saw done %d and %d times", Y.rdone, Y.wdone);
	close(Y.fd);
}
static void file_compare(const char *when) {
	unsigned char *buf = malloc(X.file_size);
	ssize_t r = pread(X.peer_fd, buf, X.file_size, 0);   // through an unwatched duplicate: no injected faults for the harness
	if (r != (ssize_t)X.file_size) h_viol("harness", "pread of the backing file failed");
	for (size_t k = 0; k < X.file_size; k++) if (buf[k] != X.file_model[k]) h_viol("file-contents", "%s: byte %zu of the file is 0x%02x, the model has 0x%02x", when, k, buf[k], X.file_model[k]);
	free(buf);
}
static void c14_file_run(void) {
	bool big = RC.cfg & CFG_THOROUGH;
	int file_epoch = 0;
	X.kind = CH_FILE; X.is_stream = 0; X.hq_serial = g_chance(1, 2);
	memset(&Y, 0, sizeof Y); Y.on = g_chance(1, 2);
	X.file_size = (size_t)g_range(2000, big || Y.on ? 120000 : 60000);   // slices of a sixth: up to a few chunks at 4 KiB chunks
	X.file_model = malloc(X.file_size);
	for (size_t k = 0; k < X.file_size; k++) X.file_model[k] = pat(k);
	X.by_path = g_chance(1, 2);
	X.nops = g_range(2, MAXIOOPS);
	// epochs of disjoint regions: region i of an epoch is slice i of the file
	int idx = 0, slice = 0; size_t nsl = 6, sl = X.file_size / nsl;
	for (int i = 0; i < X.nops; i++) {
		ioop *op = &X.ops[i]; memset(op, 0, sizeof *op); op->idx = idx++; op->got = malloc(MAXBYTES);
		uint32_t r = g_n(100);
		// the channel closed or stopped with operations in flight (nothing is submitted afterwards)
		if (i >= 1 && g_chance(1, Y.on ? 5 : 10)) { op->kind = g_chance(2, 3) ? IO_STOP : IO_CLOSE; op->pause = g_chance(1, 3) ? 0 : (uint64_t)g_range(1, 400) * USEC; X.nops = i + 1; break; }
		if (slice >= (int)nsl || r < 15) { op->kind = IO_BARRIER; slice = 0; continue; }
		if (r < 25) { op->kind = IO_SET_WATER; op->high = (size_t)g_range(64, 3000);
			if (io_chunk_pages <= 4 && g_chance(1, 2)) { size_t ch = (size_t)io_chunk_pages * 4096; op->low = ch + (size_t)g_n((uint32_t)ch); op->high = op->low + (size_t)g_n((uint32_t)ch); }
			continue; }
		op->kind = r < 62 ? IO_READ : IO_WRITE;
		size_t off = (size_t)slice * sl + g_n((uint32_t)(sl / 2)), len = 1 + g_n((uint32_t)(sl - (off - (size_t)slice * sl) - 1));
		op->off = (off_t)off; op->len = len; slice++;
	}
	X.rederived = !X.by_path && g_chance(1, 3); X.base_ready = 0; X.base_cleanup_count = 0;
	X.base_pos = X.rederived ? (off_t)g_range(1, (int)X.file_size) : 0;
	h_sample("%s (%zu bytes, opened by %s); handlers on a %s queue%s\n", chn[X.kind], X.file_size, X.by_path ? "path" : "descriptor", X.hq_serial ? "serial" : "global", Y.on ? "; a second channel on another file of the same device reads and writes meanwhile" : "");
	for (int i = 0; i < X.nops; i++) if (op_on(X.ops[i].idx)) { ioop *op = &X.ops[i]; h_sample(" #%d %s", op->idx, ion[op->kind]); if (op->kind == IO_READ || op->kind == IO_WRITE) h_sample("(off %ld, len %zu)", (long)op->off, op->len); h_sample("\n"); }
	h_announce();
	X.fd = memfd_create("c14", 0);
	if (X.fd < 0 || write(X.fd, X.file_model, X.file_size) != (ssize_t)X.file_size) h_viol("harness", "memfd");
	lseek(X.fd, 0, SEEK_SET);   // offsets of a random-access channel are relative to the descriptor's position at creation
	X.peer_fd = dup(X.fd);
	sim_io_watch(X.fd, 0);
	X.hq = X.hq_serial ? dispatch_queue_create("io-handlers", NULL) : dispatch_get_global_queue(0, 0);
	void (^cleanup)(int) = ^(int error) { X.cleanup_count++; X.cleanup_err = error; X.cleanup_stamp = h_stamp(); h_log("cleanup handler error=%d", error); h_progress(); };
	int chfd = X.fd;
	if (X.by_path) {
		char path[64]; snprintf(path, sizeof path, "/proc/self/fd/%d", X.fd);
		X.ch = dispatch_io_create_with_path(DISPATCH_IO_RANDOM, path, O_RDWR, 0, X.hq, cleanup);
	} else if (X.rederived) {
		// offsets of a derived random-access channel are relative to the descriptor's position when it is derived, not to
		// the position its parent recorded: the parent is created at base_pos, the descriptor is rewound once the parent is set up
		h_log("the channel is derived from a random-access channel created at descriptor position %ld; the descriptor is rewound before", (long)X.base_pos);
		lseek(chfd, X.base_pos, SEEK_SET);
		X.base = dispatch_io_create(DISPATCH_IO_RANDOM, chfd, X.hq, ^(int error) { (void)error; X.base_cleanup_count++; h_log("cleanup handler of the parent channel"); h_progress(); });
		if (!X.base) h_viol("create", "dispatch_io_create failed");
		dispatch_io_barrier(X.base, ^{ X.base_ready = 1; h_progress(); });
		if (h_wait_until(base_is_ready, NULL, LIVENESS_NS)) h_stuck("never-done", "the barrier of a freshly created channel never ran");
		lseek(chfd, 0, SEEK_SET);
		X.ch = dispatch_io_create_with_io(DISPATCH_IO_RANDOM, X.base, X.hq, cleanup);
		if (!X.ch) h_viol("create", "dispatch_io_create_with_io failed");
		dispatch_io_close(X.base, 0); dispatch_release(X.base);
	} else X.ch = dispatch_io_create(DISPATCH_IO_RANDOM, chfd, X.hq, cleanup);
	if (!X.ch) h_viol("create", "dispatch_io_create failed");
	if (Y.on) bystander_start();
	// client: submit; reads expect the model as of their epoch, writes update it when they complete without error
	for (int i = 0; i < X.nops; i++) {
		ioop *op = &X.ops[i]; if (!op_on(op->idx)) continue;
		if (op->kind == IO_BARRIER) {
			op->submit = h_stamp(); op->submitted = 1;
			dispatch_io_barrier(X.ch, ^{ op->barrier_start = h_stamp(); sim_point(); op->done_count = 1; op->barrier_end = h_stamp(); h_progress(); });
			// epochs are made sequential by waiting for the barrier: the model is only updated between epochs
			uint64_t t0 = sim_now(); while (!op->done_count && sim_now() - t0 < LIVENESS_NS) sim_sleep_ns(200 * USEC);
			// (progress is only owed once the faults have stopped: injected clock warps and short writes can eat the budget)
			if (!op->done_count && !sim_is_fair()) { sim_set_fair(); t0 = sim_now(); while (!op->done_count && sim_now() - t0 < LIVENESS_NS) sim_sleep_ns(200 * USEC); }
			if (!op->done_count) h_stuck("never-done", "a barrier on the file channel did not run");
			// the barrier orders I/O, not handler deliveries: every earlier write must have reached the file by now
			for (int j = 0; j < i; j++) { ioop *w = &X.ops[j]; if (w->kind == IO_WRITE && w->submitted && !w->after_done) { w->after_done = 1;
				for (size_t k = 0; k < w->len; k++) X.file_model[(size_t)w->off + k] = pat((size_t)w->off + k + 1000 * (size_t)w->idx); } }
			file_epoch++;
			if (sim_st.iofault[IOF_EIO] + sim_st.iofault[IOF_ENOSPC] > 0) continue;
			file_compare("at a barrier (an earlier write had not reached the file, or a later one already had)");
			continue;
		}
		op->epoch = file_epoch;
		if ((op->kind == IO_STOP || op->kind == IO_CLOSE) && op->pause) sim_sleep_ns(op->pause);   // the earlier operations are under way
		submit_op(op);
		sim_point();
	}
	X.client_done = 1;
	sim_set_fair();   // end of the fault phase: from here on no injected clock warps, short writes or errors; completion is owed within the bound
	if (h_wait_until(io_done, NULL, LIVENESS_NS)) h_stuck("never-done", "a file operation never saw done");
	if (Y.on) bystander_judge();
	if (!X.closed_call) { dispatch_io_close(X.ch, 0); X.closed_call = 1; }
	dispatch_release(X.ch);
	if (h_wait_until(io_cleaned, NULL, LIVENESS_NS)) h_stuck("no-cleanup", "the channel's cleanup handler did not run after close and release");
	h_settle(10 * MSEC);
	int hard = sim_st.iofault[IOF_EIO] + sim_st.iofault[IOF_ENOSPC] > 0;
	for (int i = 0; i < X.nops; i++) {
		ioop *op = &X.ops[i]; if (!op->submitted) continue;
		if (op->kind == IO_WRITE && op->ngot && !op->err) h_viol("unwritten-without-error", "file io_write #%d reported %zu unwritten bytes without an error", op->idx, op->ngot);
		if (op->kind == IO_WRITE && op->err && !hard && !X.stop) h_viol("spurious-error", "file io_write #%d completed with error %d although no error was injected and the channel was not stopped", op->idx, op->err);
		if (op->kind == IO_WRITE && !op->after_done) { size_t written = op->len - op->ngot; for (size_t k = 0; k < written; k++) X.file_model[(size_t)op->off + k] = pat((size_t)op->off + k + 1000 * (size_t)op->idx);
			if (op->ngot && !op->err) h_viol("unwritten-without-error", "file io_write #%d reported %zu unwritten bytes without an error", op->idx, op->ngot); }
		if (op->kind == IO_READ) {
			if (op->ngot > op->len) h_viol("too-much-data", "file io_read #%d delivered %zu of %zu bytes", op->idx, op->ngot, op->len);
			if (!op->err && !hard && op->ngot != op->len) h_viol("short-read", "file io_read #%d (off %ld len %zu) completed without error with %zu bytes", op->idx, (long)op->off, op->len, op->ngot);
			if (op->err && !hard && !X.stop) h_viol("spurious-error", "file io_read #%d completed with error %d although no error was injected and the channel was not stopped", op->idx, op->err);
			// every byte is what the last write of an earlier epoch left there (or the original contents); writes of
			// the read's own epoch only overlap it when barriers were switched off by the minimiser: then either value
			// is admissible; a write of a later epoch must never be visible
			for (size_t k = 0; k < op->ngot && !hard; k++) {
				size_t o = (size_t)op->off + k; unsigned char want = pat(o); int ok = 0;
				for (int j = 0; j < X.nops; j++) { ioop *w = &X.ops[j];
					if (w->kind != IO_WRITE || !w->submitted || o < (size_t)w->off || o >= (size_t)w->off + w->len) continue;
					unsigned char wv = pat(o + 1000 * (size_t)w->idx);
					if (w->epoch < op->epoch) want = wv;
					else if (w->epoch == op->epoch && op->got[k] == wv) ok = 1; }
				if (!ok && op->got[k] != want)
					h_viol("wrong-bytes", "file io_read #%d: byte %zu (file offset %zu) is 0x%02x, expected 0x%02x (the contents after the barrier before it)", op->idx, k, o, op->got[k], want);
			}
		}
		if ((op->kind == IO_READ || op->kind == IO_WRITE) && op->done_count != 1) h_viol("done-count", "%s #%d saw done %d times", ion[op->kind], op->idx, op->done_count);
	}
	if (X.cleanup_count != 1) h_viol("cleanup-count", "the cleanup handler ran %d times", X.cleanup_count);
	if (X.rederived) {
		uint64_t t0 = sim_now(); while (!X.base_cleanup_count && sim_now() - t0 < LIVENESS_NS) sim_sleep_ns(20 * MSEC);
		if (X.base_cleanup_count != 1) h_viol("cleanup-count", "the cleanup handler of the parent of the channel made with dispatch_io_create_with_io ran %d times", X.base_cleanup_count);
	}
	if (!hard) file_compare("at the end");
	if (known_clause[0]) h_viol(known_clause, "%s", known_msg);
	RES.counters[0] = X.nops; RES.counters[2] = sim_io_ncalls; RES.counters[3] = X.stop; RES.counters[4] = 1; RES.counters[7] = Y.on;
	RES.nontrivial = sim_io_ncalls >= 2 && sim_st.switches > 10;
}

static void c14_tune(sim_knobs *k, unsigned cfg, uint64_t *g) {
	k->thrfail_den = 0; if (!k->tick_ns) k->tick_ns = 20;
	k->alloc_den = 0; k->step_cap = 6000000;
	for (int i = 0; i < SIM_MAX_STALLS; i++) if (k->stall_code[i] > 3) k->stall_code[i] = 1 + k->stall_code[i] % 3;
	if (cfg & CFG_FAULTY) {
		k->iofault_den = (g[0] & 1) ? 4 : 10;
		k->iofault_mask = (1u << IOF_SHORT) | (1u << IOF_EINTR) | (1u << IOF_EAGAIN);
		// hard errors in a third of the faulty runs (the judge then only demands: never wrong data, every operation completes)
		if ((g[0] >> 4) % 3 == 0) k->iofault_mask |= (1u << IOF_EIO) | (1u << IOF_ENOSPC) | (1u << IOF_EPIPE);
	}
}
static const char *const c14_names[] = { "operations", "bytes_delivered_or_unwritten", "intercepted_io_calls", "runs_with_stop", "file_channel_runs", "convenience_api_runs", "derived_channel_runs", "second_channel_same_device_runs", NULL };
const prop_def prop_C14 = { "C14", c14_tune, c14_run, c14_names,
	"non-trivial: the library made at least two read/write system calls on the descriptor under test and more than 10 context switches happened; distinct = distinct schedule signatures among those" };

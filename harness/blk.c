// C19: dispatch block objects -- cancel, wait, notify, testcancel relative to the execution
#include "h.h"
#include <Block.h>

enum { SUB_ASYNC, SUB_SYNC, SUB_GROUP_ASYNC, SUB_DIRECT, SUB_BARRIER_ASYNC, SUB_BARRIER_SYNC, SUB_AAW, SUB_AFTER, SUB_N };
static const char *const subnames[SUB_N] = { "dispatch_async", "dispatch_sync", "dispatch_group_async", "direct invocation", "dispatch_barrier_async", "dispatch_barrier_sync", "dispatch_async_and_wait", "dispatch_after" };
#define SUB_IS_SYNC(s) ((s) == SUB_SYNC || (s) == SUB_DIRECT || (s) == SUB_BARRIER_SYNC || (s) == SUB_AAW)
enum { CM_NONE, CM_BEFORE_SUBMIT, CM_WHILE_GATED, CM_RANDOM, CM_FROM_BODY, CM_N };
static const char *const cmnames[CM_N] = { "no cancel", "cancel before submit", "cancel while the block is queued behind a held item", "cancel at a random instant", "cancel from its own body" };

typedef struct nrec { uint64_t call, start; int count; int qi; } nrec;
static struct {
	dispatch_block_t b;
	dispatch_queue_t q[3]; int qi;
	dispatch_group_t grp;
	int sub, cm, flags_i, qos_i;
	// history
	uint64_t submit_call, submit_ret, body_start, body_end, cancel_call, cancel_ret;
	int body_count;
	int wait_zero; uint64_t wait_zero_ret;
	nrec n[8]; int nn;
	sim_event gate, gated_started, submitted;
	int nwaits, nnotify_threads, ntest;
	int done_threads, total_threads;
	int perform_count;
	int body_sleeps;
	int twice, bodies_ended, arrived; sim_event both;   // the same block object is submitted a second time (legal: wait/notify follow the first completion)
} B;

static void body(void) {
	B.body_count++;
	if (!B.body_start) B.body_start = h_stamp();
	h_log("body starts (run %d)", B.body_count);
	if (B.body_count > (B.twice ? 2 : 1)) h_viol("body-twice", "the block object's body ran %d times although it was submitted %s", B.body_count, B.twice ? "twice" : "once");
	if (B.cancel_ret && B.cancel_ret < B.submit_call)
		h_viol("cancelled-ran", "the body ran although dispatch_block_cancel had returned before the block was even submitted");
	if (B.cm == CM_WHILE_GATED && B.cancel_ret)
		h_viol("cancelled-ran", "the body ran although dispatch_block_cancel returned while the block was still queued behind a running item");
	if (B.cm == CM_FROM_BODY && !B.cancel_call) {
		B.cancel_call = h_stamp(); dispatch_block_cancel(B.b); B.cancel_ret = h_stamp();
		if (!dispatch_block_testcancel(B.b)) h_viol("testcancel", "dispatch_block_testcancel returned 0 right after dispatch_block_cancel returned");
	}
	if (B.body_sleeps == 1) { sim_point(); sim_point(); }
	else if (B.body_sleeps == 2) sim_sleep_ns(200 * USEC);
	// two executions of one object: let them finish together (the completion bookkeeping of both then overlaps)
	if (B.twice) { if (++B.arrived < 2) sim_event_wait(&B.both, 2 * MSEC); else sim_event_signal(&B.both); }
	if (!B.body_end) B.body_end = h_stamp();   // completion of the first execution to complete
	B.bodies_ended++;
	h_log("body ends");
	h_progress();
}
static void gate_item(void *c) {
	(void)c;
	sim_event_signal(&B.gated_started);
	sim_event_wait(&B.gate, 3 * LIVENESS_NS);
}
static void notify_fn(void *c) {
	nrec *r = c;
	r->start = h_stamp(); r->count++;
	h_log("notify block %d runs", (int)(r - B.n));
	if (r->count > 1) h_viol("notify-twice", "a dispatch_block_notify block ran %d times", r->count);
	if (B.body_count >= 1 && !B.body_end) h_viol("notify-early", "notification ran before any execution of the block object had completed");
	if (B.body_count == 0 && !B.cancel_call) h_viol("notify-early", "notification ran before the block object had executed and without any cancellation");
	h_progress();
}
static void *submitter(void *arg) {
	(void)arg;
	dispatch_queue_t q = B.q[B.qi];
	if (B.cm == CM_BEFORE_SUBMIT) {
		B.cancel_call = h_stamp(); dispatch_block_cancel(B.b); B.cancel_ret = h_stamp();
		h_log("cancel before submit");
	}
	if (B.cm == CM_WHILE_GATED) {
		// a held item occupies the serial queue; the block object is queued behind it
		dispatch_async_f(q, NULL, gate_item);
		sim_event_wait(&B.gated_started, LIVENESS_NS);
	}
	B.submit_call = h_stamp();
	h_log("submit via %s", subnames[B.sub]);
	switch (B.sub) {
	case SUB_ASYNC: dispatch_async(q, B.b); break;
	case SUB_BARRIER_ASYNC: dispatch_barrier_async(q, B.b); break;
	case SUB_SYNC: dispatch_sync(q, B.b); break;
	case SUB_GROUP_ASYNC: dispatch_group_async(B.grp, q, B.b); break;
	case SUB_DIRECT: B.b(); break;
	case SUB_BARRIER_SYNC: dispatch_barrier_sync(q, B.b); break;
	case SUB_AAW: dispatch_async_and_wait(q, B.b); break;
	case SUB_AFTER: dispatch_after(dispatch_time(DISPATCH_TIME_NOW, (int64_t)((RC.seed >> 50 & 7) * 30000)), q, B.b); break;
	}
	B.submit_ret = h_stamp();
	h_log("submit returned");
	if (B.twice) { h_log("second submission (dispatch_async)"); dispatch_async(B.q[B.twice == 1 ? 2 : 0], B.b); }
	sim_event_signal(&B.submitted);
	if (SUB_IS_SYNC(B.sub) && B.body_count >= 1 && !B.body_end)
		h_viol("sync-return", "%s of a block object returned before its body finished", subnames[B.sub]);
	if (B.cm == CM_WHILE_GATED) {
		sim_point();
		B.cancel_call = h_stamp(); dispatch_block_cancel(B.b); B.cancel_ret = h_stamp();
		h_log("cancel while gated");
		sim_event_signal(&B.gate);
	}
	B.done_threads++; h_progress();
	return NULL;
}
static void *canceller(void *arg) {
	(void)arg;
	uint64_t d = (RC.seed >> 7) % 5;
	if (d == 0) sim_event_wait(&B.submitted, LIVENESS_NS);
	else sim_sleep_ns((d - 1) * 40 * USEC);
	B.cancel_call = h_stamp();
	h_log("cancel (random instant)");
	dispatch_block_cancel(B.b);
	B.cancel_ret = h_stamp();
	if (!dispatch_block_testcancel(B.b)) h_viol("testcancel", "dispatch_block_testcancel returned 0 after dispatch_block_cancel returned");
	B.done_threads++; h_progress();
	return NULL;
}
static void *waiter(void *arg) {
	(void)arg;
	// one waiter at a time, as the API requires: polls and timed waits until one succeeds, then FOREVER
	static const uint64_t touts[] = { 1000, 30000, 200000, 1000000 };
	for (int i = 0; i < B.nwaits; i++) {
		uint32_t k = (uint32_t)((RC.seed >> (11 + i * 3)) & 7);
		dispatch_time_t t = k < 2 ? DISPATCH_TIME_NOW : dispatch_time(DISPATCH_TIME_NOW, (int64_t)touts[k & 3]);
		h_log("wait %s", k < 2 ? "now" : "timed");
		long r = dispatch_block_wait(B.b, t);
		uint64_t ret = h_stamp();
		if (r == 0) { B.wait_zero = 1; B.wait_zero_ret = ret; break; }
		if (k >= 2 && sim_clock_hw(CLOCK_MONOTONIC) < (uint64_t)t)
			h_viol("early-timeout", "dispatch_block_wait returned non-zero %lu ns before its deadline", (unsigned long)((uint64_t)t - sim_clock_hw(CLOCK_MONOTONIC)));
		sim_point();
	}
	if (!B.wait_zero) {
		h_log("wait forever");
		if (dispatch_block_wait(B.b, DISPATCH_TIME_FOREVER) != 0) h_viol("forever-timeout", "dispatch_block_wait(FOREVER) returned non-zero");
		B.wait_zero = 1; B.wait_zero_ret = h_stamp();
	}
	h_log("wait returned 0");
	if (B.body_count >= 1 && !B.body_end) h_viol("wait-early", "dispatch_block_wait returned 0 before any execution of the body had completed");
	if (B.body_count == 0 && !B.cancel_call) h_viol("wait-early", "dispatch_block_wait returned 0 before the block object executed (no cancellation was ever requested)");
	if (B.body_count == 0 && !B.submit_call) h_viol("wait-early", "dispatch_block_wait returned 0 before the block object was submitted");
	B.done_threads++; h_progress();
	return NULL;
}
static void *notifier(void *arg) {
	int i = (int)(intptr_t)arg;
	sim_sleep_ns(((RC.seed >> (20 + i * 4)) & 7) * 25 * USEC);
	nrec *r = &B.n[i];
	r->qi = (int)((RC.seed >> (30 + i)) % 3);
	r->call = h_stamp();
	h_log("notify %d registered", i);
	if (i & 1) dispatch_block_notify(B.b, B.q[r->qi], ^{ notify_fn(r); });
	else dispatch_block_notify(B.b, B.q[r->qi], ^{ notify_fn(r); });
	B.done_threads++; h_progress();
	return NULL;
}
static void *tester(void *arg) {
	(void)arg;
	for (int i = 0; i < 4; i++) {
		uint64_t call = h_stamp();
		int had_cancel_ret = B.cancel_ret != 0;   // a cancel had certainly returned before this call
		int cancel_called = B.cancel_call != 0;
		long r = dispatch_block_testcancel(B.b);
		(void)call;
		if (had_cancel_ret && !r) h_viol("testcancel", "dispatch_block_testcancel returned 0 after dispatch_block_cancel had returned");
		if (r && !cancel_called && !B.cancel_call) h_viol("testcancel", "dispatch_block_testcancel returned non-zero although no cancellation was requested");
		sim_sleep_ns(30 * USEC);
	}
	B.done_threads++; h_progress();
	return NULL;
}
static bool blk_done(void *c) {
	(void)c;
	if (B.done_threads < B.total_threads) return false;
	if (B.bodies_ended < B.body_count) return false;
	for (int i = 0; i < B.nn; i++) if (!B.n[i].count) return false;
	// executed or skipped: observable through testable effects only; the waiter/notifier obligations cover it
	return true;
}
static void c19_run(void) {
	memset(&B, 0, sizeof B);
	static const dispatch_block_flags_t fl[] = { 0, DISPATCH_BLOCK_BARRIER, DISPATCH_BLOCK_DETACHED, DISPATCH_BLOCK_ASSIGN_CURRENT,
		DISPATCH_BLOCK_INHERIT_QOS_CLASS, DISPATCH_BLOCK_ENFORCE_QOS_CLASS, DISPATCH_BLOCK_BARRIER | DISPATCH_BLOCK_ENFORCE_QOS_CLASS,
		DISPATCH_BLOCK_NO_QOS_CLASS };
	B.flags_i = (int)g_n(8); B.qos_i = (int)g_n(3);
	B.sub = (int)g_n(SUB_N); B.cm = (int)g_n(CM_N); B.qi = (int)g_n(3);
	B.body_sleeps = (int)g_n(3);
	if (B.cm == CM_WHILE_GATED) { B.qi = 1; if (SUB_IS_SYNC(B.sub) || B.sub == SUB_AFTER) B.sub = SUB_ASYNC; }
	if (B.cm != CM_WHILE_GATED && B.cm != CM_BEFORE_SUBMIT && B.sub != SUB_DIRECT && g_chance(1, 4)) B.twice = 1 + (int)g_n(2);   // second submission to the concurrent (1) or global (2) queue
	int have_waiter = g_chance(7, 10); B.nwaits = g_range(0, 4);
	B.nn = g_range(0, 3);
	int have_tester = g_chance(1, 2);
	// block.h: an object is either waited for / observed and executed once, or executed any number of times
	if (B.twice) { have_waiter = 0; B.nn = 0; }
	h_sample("block object flags=0x%lx%s, submitted by %s to q%d (0 global, 1 serial, 2 concurrent), %s, %s, %d notify, body %s%s\n",
		(unsigned long)fl[B.flags_i], B.qos_i ? " +qos class" : "", subnames[B.sub], B.qi, cmnames[B.cm], have_waiter ? "one waiter" : "no waiter", B.nn,
		B.body_sleeps == 0 ? "empty" : B.body_sleeps == 1 ? "yields" : "sleeps", B.twice ? "; the same object is submitted a second time with dispatch_async" : "");
	h_announce();
	B.q[0] = dispatch_get_global_queue(0, 0);
	B.q[1] = dispatch_queue_create("blk-serial", NULL);
	B.q[2] = dispatch_queue_create("blk-conc", DISPATCH_QUEUE_CONCURRENT);
	B.grp = dispatch_group_create();
	if (B.qos_i) B.b = dispatch_block_create_with_qos_class(fl[B.flags_i], B.qos_i == 1 ? QOS_CLASS_UTILITY : QOS_CLASS_USER_INITIATED, -B.qos_i, ^{ body(); });
	else B.b = dispatch_block_create(fl[B.flags_i], ^{ body(); });
	if (!B.b) h_viol("create", "dispatch_block_create returned NULL for valid flags");
	sim_watch(B.b, 192);   // the block object with its private data (flags, performed count, group, queue)
	sim_thread *th[16]; int n = 0;
	th[n++] = sim_spawn(submitter, NULL, "submitter");
	if (B.cm == CM_RANDOM) th[n++] = sim_spawn(canceller, NULL, "canceller");
	if (have_waiter) th[n++] = sim_spawn(waiter, NULL, "waiter");
	for (int i = 0; i < B.nn; i++) th[n++] = sim_spawn(notifier, (void *)(intptr_t)i, "notifier");
	if (have_tester) th[n++] = sim_spawn(tester, NULL, "tester");
	B.total_threads = n;
	h_end_fault_phase(th, n, 10 * NSEC);
	if (h_wait_until(blk_done, NULL, LIVENESS_NS)) {
		char b[200]; int nr = 0; for (int i = 0; i < B.nn; i++) nr += B.n[i].count;
		snprintf(b, sizeof b, "%d of %d threads finished, %d of %d notifications delivered, body ran %d time(s), cancel %s", B.done_threads, B.total_threads, nr, B.nn, B.body_count, B.cancel_call ? "requested" : "not requested");
		h_stuck("completion", b);
	}
	h_settle(20 * MSEC);
	if (B.body_count > (B.twice ? 2 : 1)) h_viol("body-twice", "body ran %d times", B.body_count);
	{
		// nothing may have observed the execution yet: give the queue the liveness bound
		uint64_t t0 = sim_now();
		int want = B.twice ? 2 : 1;
		while (((B.body_count < want && !B.cancel_call) || B.bodies_ended < B.body_count) && sim_now() - t0 < LIVENESS_NS) sim_sleep_ns(50 * MSEC);
		if (B.body_count < want && !B.cancel_call) h_stuck("never-ran", "an uncancelled block object was submitted but its body did not run for every submission");
	}
	if (B.bodies_ended < B.body_count) h_stuck("interrupted", "the body started but did not finish");
	for (int i = 0; i < B.nn; i++) {
		if (B.n[i].count != 1) h_viol("notify-count", "notification %d ran %d times", i, B.n[i].count);
		if (B.body_count && B.n[i].start < B.body_end) h_viol("notify-early", "notification %d ran before the block object's first execution had completed", i);
	}
	if (B.wait_zero && B.body_count && B.wait_zero_ret < B.body_end) h_viol("wait-early", "dispatch_block_wait returned 0 before the block object's first execution had completed");
	// dispatch_block_perform: runs synchronously exactly once
	int before = B.perform_count;
	dispatch_block_perform(fl[(B.flags_i + 1) & 7] & ~DISPATCH_BLOCK_BARRIER, ^{ B.perform_count++; });
	if (B.perform_count != before + 1) h_viol("perform", "dispatch_block_perform ran its block %d times", B.perform_count - before);
	RES.counters[0] = B.body_count; RES.counters[1] = B.cancel_call != 0; RES.counters[2] = B.wait_zero; RES.counters[3] = B.nn;
	RES.counters[4] = (B.cancel_call && B.body_count == 0);
	RES.counters[5] = B.twice != 0;
	RES.nontrivial = (B.wait_zero || B.nn || B.twice) && sim_st.switches > 6;
}
static const char *const c19_names[] = { "bodies_run", "runs_with_cancel", "waits_returned_zero", "notifications", "cancelled_before_start_runs", "double_submission_runs", NULL };
const prop_def prop_C19 = { "C19", NULL, c19_run, c19_names,
	"non-trivial: a wait returned zero, a notification was registered or the object was submitted twice, and more than 6 context switches happened; distinct = distinct schedule signatures among those" };

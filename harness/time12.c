// C12 (narrow claim, DESIGN.md 3.12): dispatch_time / dispatch_walltime against a 128-bit reference model at
// simulated clock positions, and "waiting until a time that is already past does not block"
#include "h.h"

typedef __int128 i128;
#define TMAX ((i128)((1ull << 62) - 1))
#define T_FOREVER (~0ull)
#define T_WALLNOW (~1ull)
#define T_MONONOW (1ull << 63)
enum { CK_UP, CK_MONO, CK_WALL };
static const int clk_ids[3] = { CLOCK_MONOTONIC, CLOCK_BOOTTIME, CLOCK_REALTIME };
static const char *const cn[3] = { "uptime", "monotonic", "wall" };

typedef struct dec { int forever; int clock; i128 value; int is_now; } dec;
// documented encoding (dispatch/time.h, src/shims/time.h)
static dec decode(uint64_t t) {
	dec d = { 0, CK_UP, 0, 0 };
	if (t == T_FOREVER) { d.forever = 1; return d; }
	if (t == 0) { d.clock = CK_UP; d.is_now = 1; d.value = (i128)sim_clock(clk_ids[CK_UP]); return d; }
	if (t == T_WALLNOW) { d.clock = CK_WALL; d.is_now = 1; d.value = (i128)sim_clock(clk_ids[CK_WALL]); return d; }
	if (t == T_MONONOW) { d.clock = CK_MONO; d.is_now = 1; d.value = (i128)sim_clock(clk_ids[CK_MONO]); return d; }
	if (t >> 63) {
		if (t & (1ull << 62)) { d.clock = CK_WALL; d.value = (i128)(uint64_t)(-(int64_t)t); }
		else { d.clock = CK_MONO; d.value = (i128)(t & ~(1ull << 63)); }
	} else { d.clock = CK_UP; d.value = (i128)t; }
	return d;
}
// effective deadline: waiting until t returns at max(t, now); a time that has already elapsed is as good as now
static i128 order_key(uint64_t t) { dec d = decode(t); if (d.forever) return (i128)1 << 100; i128 now = (i128)sim_clock(clk_ids[d.clock]); return d.value > now ? d.value : now; }
static const char *fmt128(i128 v, char *b) {
	if (v < 0) { snprintf(b, 48, "-%llu", (unsigned long long)(uint64_t)(-v)); }
	else if (v >> 64) snprintf(b, 48, "2^64*%llu+%llu", (unsigned long long)(uint64_t)(v >> 64), (unsigned long long)(uint64_t)v);
	else snprintf(b, 48, "%llu", (unsigned long long)(uint64_t)v);
	return b;
}

static int64_t gen_delta12(void) {
	switch (g_n(8)) {
	case 0: return 0;
	case 1: return (int64_t)g_n(10) - 5;
	case 2: return (int64_t)(g_rnd() % 1000000000000ull);
	case 3: return -(int64_t)(g_rnd() % 1000000000000ull);
	case 4: return INT64_MAX - (int64_t)g_n(5);
	case 5: return INT64_MIN + (int64_t)g_n(5);
	case 6: return (int64_t)((1ull << 62) - 3 + g_n(6));
	default: return (int64_t)g_rnd();
	}
}
static uint64_t gen_base12(void) {
	switch (g_n(12)) {
	case 0: return 0;
	case 1: return T_WALLNOW;
	case 2: return T_MONONOW;
	case 3: return T_FOREVER;
	case 4: return 1 + g_n(10);                                   // uptime near zero
	case 5: return (1ull << 62) - 5 + g_n(10);                    // uptime around the range limit
	case 6: return T_MONONOW + 1 + g_n(10);                       // monotonic near zero
	case 7: return T_MONONOW + (1ull << 62) - 5 + g_n(5);         // monotonic near the limit
	case 8: return (uint64_t)(-(int64_t)(2 + g_n(10)));           // wall near the epoch (values 2..11)
	case 9: return (uint64_t)(-(int64_t)((1ull << 62) - 5 + g_n(10)));   // wall around the limit
	case 10: { uint64_t v = g_rnd(); return v; }
	default: { uint64_t now = sim_clock(clk_ids[g_n(3)]); return now + g_n(1000000); }
	}
}
static void set_clock_position(void) {
	// positions at which the current time itself is representable (the last ones: 146 years of uptime, year 2116)
	static const uint64_t ups[] = { 1000ull * NSEC, 5, 100000, (1ull << 62) - 100000, (1ull << 61), (1ull << 62) - 2000000000ull, 12345678901234ull };
	static const uint64_t walls[] = { 1700000000ull * NSEC, 30, 100000, (1ull << 62) - 100000, (1ull << 62) - 3000000000ull, 1ull << 61 };
	uint64_t up = ups[g_n(g_chance(2, 3) ? 1 : 7)], wall = walls[g_n(g_chance(2, 3) ? 1 : 6)];
	up += g_n(1000);
	sim_set_clocks(up, g_n(1000), wall - up);
}

static int pure_cases, clock_cases, forever_cases, elapsed_cases, walltime_cases;

static void check_time(uint64_t base, int64_t delta) {
	dec b = decode(base);
	uint64_t r = dispatch_time(base, delta);
	dec rd = decode(r);
	char s1[48], s2[48], s3[48];
	if (b.is_now) clock_cases++; else pure_cases++;
	if (b.forever) { if (r != T_FOREVER) h_viol("forever-not-absorbing", "dispatch_time(FOREVER, %ld) = 0x%lx", (long)delta, (unsigned long)r); forever_cases++; return; }
	int base_out_of_range = !b.is_now && (b.value > TMAX || (b.clock == CK_WALL && b.value < 3));
	i128 s = b.value + (i128)delta;
	i128 minrep = b.clock == CK_WALL ? 3 : 1;   // wall values 1 and 2 would encode as FOREVER and WALLTIME_NOW
	if (base_out_of_range) {
		// a base beyond the representable range: FOREVER (or, leniently, the exact in-range sum)
		if (r == T_FOREVER) { forever_cases++; return; }
		if (s >= minrep && s <= TMAX && rd.clock == b.clock && rd.value == s) return;
		h_viol("out-of-range-base", "dispatch_time(0x%lx [%s clock, value %s out of range], %ld) = 0x%lx", (unsigned long)base, cn[b.clock], fmt128(b.value, s1), (long)delta, (unsigned long)r);
	}
	if (s == TMAX && (r == T_FOREVER || (rd.clock == b.clock && rd.value == s))) return;   // the largest value: either reading of the limit
	if (s > TMAX) {
		forever_cases++;
		if (r != T_FOREVER) h_viol("no-saturation", "dispatch_time(0x%lx [%s %s], %ld): sum %s is beyond the representable future but the result is 0x%lx, not FOREVER",
			(unsigned long)base, cn[b.clock], fmt128(b.value, s1), (long)delta, fmt128(s, s2), (unsigned long)r);
		return;
	}
	if (s < minrep) {
		elapsed_cases++;
		i128 now = (i128)sim_clock(clk_ids[b.clock]);
		if (rd.forever || rd.clock != b.clock || (rd.value > now && rd.value > minrep))
			h_viol("underflow", "dispatch_time(0x%lx [%s %s], %ld): sum %s precedes the representable past, expected an elapsed time on the %s clock, got 0x%lx%s",
				(unsigned long)base, cn[b.clock], fmt128(b.value, s1), (long)delta, fmt128(s, s2), cn[b.clock], (unsigned long)r, rd.forever ? " (FOREVER)" : "");
		return;
	}
	if (rd.forever || rd.clock != b.clock || rd.value != s)
		h_viol("wrong-sum", "dispatch_time(0x%lx [%s %s], %ld) = 0x%lx [%s %s], expected %s on the %s clock",
			(unsigned long)base, cn[b.clock], fmt128(b.value, s1), (long)delta, (unsigned long)r, rd.forever ? "FOREVER" : cn[rd.clock], rd.forever ? "" : fmt128(rd.value, s2), fmt128(s, s3), cn[b.clock]);
}
static void check_monotone(uint64_t base, int64_t d1, int64_t d2) {
	if (d1 > d2) { int64_t t = d1; d1 = d2; d2 = t; }
	uint64_t r1 = dispatch_time(base, d1), r2 = dispatch_time(base, d2);
	dec a = decode(r1), c = decode(r2);
	if (!a.forever && !c.forever && a.clock != c.clock)
		h_viol("clock-changed", "dispatch_time(0x%lx, %ld) and dispatch_time(0x%lx, %ld) are on different clocks (%s, %s)", (unsigned long)base, (long)d1, (unsigned long)base, (long)d2, cn[a.clock], cn[c.clock]);
	if (order_key(r1) > order_key(r2))
		h_viol("not-monotone", "dispatch_time(0x%lx, %ld) = 0x%lx is later than dispatch_time(0x%lx, %ld) = 0x%lx", (unsigned long)base, (long)d1, (unsigned long)r1, (unsigned long)base, (long)d2, (unsigned long)r2);
}
static void check_walltime(void) {
	struct timespec ts; int use_null = g_chance(1, 4);
	switch (g_n(9)) {
	case 7: ts.tv_sec = 9223372035 + (time_t)g_n(4); ts.tv_nsec = (long)g_n(1000000000); break;   // around 2^63 ns: the seconds alone overflow a signed nanosecond count
	case 8: ts.tv_sec = 9223372037 + (time_t)(g_rnd() % 4611686019ull); ts.tv_nsec = (long)g_n(1000000000); break;   // beyond it, where only a large negative delta brings the sum back into range
	case 0: ts.tv_sec = 0; ts.tv_nsec = (long)g_n(5); break;
	case 1: ts.tv_sec = 1700000000 + (time_t)g_n(1000); ts.tv_nsec = (long)g_n(1000000000); break;
	case 2: ts.tv_sec = 4611686018 + (time_t)g_n(3); ts.tv_nsec = (long)g_n(1000000000); break;   // around 2^62 ns
	case 3: ts.tv_sec = 18446744073 + (time_t)g_n(3); ts.tv_nsec = (long)g_n(1000000000); break;  // around 2^64 ns
	case 4: ts.tv_sec = (time_t)(g_rnd() >> 1); ts.tv_nsec = (long)g_n(1000000000); break;
	case 5: ts.tv_sec = -(time_t)g_n(1000); ts.tv_nsec = 0; break;
	default: ts.tv_sec = (time_t)g_n(100); ts.tv_nsec = (long)g_n(1000000000); break;
	}
	int64_t delta = gen_delta12();
	i128 v = use_null ? (i128)sim_clock(CLOCK_REALTIME) : (i128)ts.tv_sec * 1000000000 + ts.tv_nsec;
	i128 s = v + (i128)delta;
	uint64_t r = dispatch_walltime(use_null ? NULL : &ts, delta);
	dec rd = decode(r);
	char s1[48], s2[48];
	walltime_cases++;
	if (s == TMAX && (r == T_FOREVER || (rd.clock == CK_WALL && rd.value == s))) return;
	if (s > TMAX) {
		if (r != T_FOREVER) h_viol("walltime-no-saturation", "dispatch_walltime({%ld,%ld}%s, %ld): %s ns since the epoch is beyond the representable future but the result is 0x%lx [%s clock %s], not FOREVER",
			(long)ts.tv_sec, ts.tv_nsec, use_null ? "=NULL" : "", (long)delta, fmt128(s, s1), (unsigned long)r, rd.forever ? "-" : cn[rd.clock], rd.forever ? "" : fmt128(rd.value, s2));
		return;
	}
	if (s < 3) {
		i128 now = (i128)sim_clock(CLOCK_REALTIME);
		if (rd.forever || rd.clock != CK_WALL || (rd.value > now && rd.value > 3))
			h_viol("walltime-underflow", "dispatch_walltime({%ld,%ld}%s, %ld): %s ns precedes the representable past, expected an elapsed wall time, got 0x%lx%s",
				(long)ts.tv_sec, ts.tv_nsec, use_null ? "=NULL" : "", (long)delta, fmt128(s, s1), (unsigned long)r, rd.forever ? " (FOREVER)" : "");
		return;
	}
	if (rd.forever || rd.clock != CK_WALL || rd.value != s)
		h_viol("walltime-wrong-sum", "dispatch_walltime({%ld,%ld}%s, %ld) = 0x%lx [%s %s], expected wall %s",
			(long)ts.tv_sec, ts.tv_nsec, use_null ? "=NULL" : "", (long)delta, (unsigned long)r, rd.forever ? "FOREVER" : cn[rd.clock], rd.forever ? "" : fmt128(rd.value, s2), fmt128(s, s1));
}

static void c12_run(void) {
	h_sample("dispatch_time / dispatch_walltime vs 128-bit model at generated clock positions, then no-block waits\n");
	h_announce();
	int n = (RC.cfg & CFG_THOROUGH) ? 600 : 300;
	// the arithmetic is compared exactly with a model that samples the clocks itself: they stand still for that part
	int clkstep = sim_k.clkread_ns; sim_k.clkread_ns = 0;
	for (int i = 0; i < n; i++) {
		if ((i % 10) == 0) set_clock_position();
		uint64_t base = gen_base12();
		switch (g_n(4)) {
		case 0: check_walltime(); break;
		case 1: check_monotone(base, gen_delta12(), gen_delta12()); break;
		default: check_time(base, gen_delta12()); break;
		}
	}
	sim_k.clkread_ns = clkstep ? clkstep : (int)(1 + g_rnd() % 97);   // from here on the clocks move with every read
	// past times do not block: ordinary clock position, real wait paths, simulated time
	sim_set_clocks(2000ull * NSEC, 5 * NSEC, 1700000000ull * NSEC - 2000ull * NSEC);
	dispatch_semaphore_t sema = dispatch_semaphore_create(0);
	dispatch_group_t grp = dispatch_group_create();
	dispatch_group_enter(grp);
	int noblock = 0;
	for (int i = 0; i < 24; i++) {
		uint64_t base = i & 1 ? gen_base12() : (g_chance(1, 2) ? 0 : g_chance(1, 2) ? T_WALLNOW : T_MONONOW);
		int64_t delta = i & 2 ? -(int64_t)(1 + g_rnd() % 1000000000000ull) : gen_delta12();
		uint64_t t = dispatch_time(base, delta);
		dec d = decode(t);
		if (d.forever) continue;
		i128 now = (i128)sim_clock(clk_ids[d.clock]);
		if (d.value > now) continue;          // in the future: not this clause
		uint64_t t0 = sim_now();
		long r = (i & 4) ? dispatch_semaphore_wait(sema, t) : dispatch_group_wait(grp, t);
		uint64_t el = sim_now() - t0;
		noblock++;
		if (r == 0) h_viol("wait-success", "a wait on an empty semaphore / non-empty group returned 0");
		if (el > MSEC) h_viol("blocked-on-past-time", "waiting until 0x%lx, already elapsed on the %s clock, blocked for %lu ns of simulated time", (unsigned long)t, cn[d.clock], (unsigned long)el);
	}
	// ... and a time that passes while the wait is being set up (a few hundred nanoseconds ahead: the clocks move between
	// two reads) is past by the time it matters: the wait returns within that margin, it does not wrap into the far future
	for (int i = 0; i < 12; i++) {
		uint64_t base = i % 3 == 0 ? 0 : i % 3 == 1 ? T_WALLNOW : T_MONONOW;
		int64_t delta = (int64_t)(g_rnd() % 400);
		uint64_t t = dispatch_time(base, delta);
		uint64_t t0 = sim_now();
		long r = (i & 4) ? dispatch_semaphore_wait(sema, t) : dispatch_group_wait(grp, t);
		uint64_t el = sim_now() - t0;
		noblock++;
		if (r == 0) h_viol("wait-success", "a wait on an empty semaphore / non-empty group returned 0");
		if (el > MSEC) h_viol("blocked-on-past-time", "waiting until dispatch_time(%s, %ld ns) blocked for %lu ns of simulated time", i % 3 == 0 ? "DISPATCH_TIME_NOW" : i % 3 == 1 ? "DISPATCH_WALLTIME_NOW" : "the monotonic NOW", (long)delta, (unsigned long)el);
	}
	dispatch_group_leave(grp);
	RES.counters[0] = pure_cases; RES.counters[1] = clock_cases; RES.counters[2] = forever_cases; RES.counters[3] = elapsed_cases; RES.counters[4] = walltime_cases; RES.counters[5] = noblock;
	RES.nontrivial = clock_cases > 0 && noblock > 0;
	// every run is a different sample of the input space: give it a distinct signature
	sim_st.sched_sig ^= RC.seed;
}
static void c12_tune(sim_knobs *k, unsigned cfg, uint64_t *g) {
	(void)cfg; (void)g;
	k->timefault_den = 0; k->strategy = STRAT_FAIR; k->preempt_den = 0; k->alloc_den = 0; k->semeintr_den = 0; k->futexspur_den = 0;
}
static const char *const c12_names[] = { "explicit_base_cases", "clock_dependent_cases", "saturated_to_forever", "clamped_to_elapsed", "walltime_cases", "no_block_waits", NULL };
const prop_def prop_C12 = { "C12", c12_tune, c12_run, c12_names,
	"each run samples 300 (thorough: 600) (clock position, base, delta) triples with boundary-biased generators plus 24 wait calls; non-trivial: the run contained clock-dependent cases (NOW / WALLTIME_NOW / NULL bases read through the simulated clocks) and at least one no-block wait; distinct = distinct run seeds (no schedule is involved: single client thread; this part is seeded input sampling that runs inside the simulator, see DESIGN.md 3.12)" };

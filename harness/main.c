// dsim: zygote / worker / replay driver. One binary per build mode (plain, asan, full).
#include "h.h"
#include <sys/wait.h>
#include <sys/personality.h>
#include <poll.h>
#include <signal.h>
#include <fcntl.h>
#include <sys/stat.h>
#include <sys/mman.h>
#include <sys/prctl.h>

static char *replay_tape;   // text of a tape to replay / force
run_ctx RC;
result RES;
uint64_t h_seqno;
static int res_fd = -1;
static const prop_def *PROP;
static sim_event progress_ev;

/* ---------- small utilities ---------- */
static uint64_t splitmix64(uint64_t *x) {
	uint64_t z = (*x += 0x9e3779b97f4a7c15ull);
	z = (z ^ (z >> 30)) * 0xbf58476d1ce4e5b9ull;
	z = (z ^ (z >> 27)) * 0x94d049bb133111ebull;
	return z ^ (z >> 31);
}
uint64_t g_rnd(void) {
	uint64_t s1 = RC.gen[0], s0 = RC.gen[1];
	uint64_t r = s0 + s1;
	RC.gen[0] = s0; s1 ^= s1 << 23;
	RC.gen[1] = s1 ^ s0 ^ (s1 >> 18) ^ (s0 >> 5);
	return r;
}
void *xzalloc(size_t n) { void *p = malloc(n ? n : 1); if (!p) abort(); memset(p, 0, n); return p; }
void h_mix(uint64_t v) { RES.hist_hash = (RES.hist_hash ^ v) * 1099511628211ull; }
void h_log(const char *fmt, ...) {
	char buf[400]; va_list ap; va_start(ap, fmt);
	int n = vsnprintf(buf, sizeof buf, fmt, ap); va_end(ap);
	if (n < 0) n = 0;
	if ((size_t)n >= sizeof buf) n = sizeof buf - 1;
	for (int i = 0; i < n; i++) h_mix((uint8_t)buf[i]);
	h_mix(0xff);
	if (RC.verbose) fprintf(stderr, "[%6lu t%d %.6f] %s\n", (unsigned long)h_seqno, sim_self_id(),
		(double)sim_now() / 1e9, buf);
}
void h_sample(const char *fmt, ...) {
	size_t o = strlen(RES.sample);
	if (o + 8 >= sizeof RES.sample) return;
	va_list ap; va_start(ap, fmt);
	vsnprintf(RES.sample + o, sizeof RES.sample - o, fmt, ap); va_end(ap);
	if (RC.verbose) { va_start(ap, fmt); fprintf(stderr, "PROGRAM: "); vfprintf(stderr, fmt, ap); va_end(ap); }
}
static void send_result(void) {
	sim_finish_stats();
	RES.st = sim_st;
	RES.tape_n = sim_tape_count();
	if (res_fd >= 0) {
		const char *p = (const char *)&RES; size_t left = sizeof RES;
		while (left) { ssize_t w = write(res_fd, p, left); if (w <= 0) break; p += w; left -= (size_t)w; }
	}
}
static char *tape_text; static size_t tape_text_cap;
// the buffer comes from mmap and the file is written with plain system calls: this also runs from the crash handler,
// possibly with the allocator's lock held (glibc aborting on a corrupted heap) or the heap in an unknown state
static void write_tape_file(void) {
	const char *path = getenv("DSIM_TAPE_OUT");
	if (!path) return;
	if (!tape_text) {
		tape_text_cap = 8 << 20;
		void *m = mmap(NULL, tape_text_cap, PROT_READ | PROT_WRITE, MAP_PRIVATE | MAP_ANONYMOUS, -1, 0);
		if (m == MAP_FAILED) return;
		tape_text = m;
	}
	size_t n = sim_tape_dump(tape_text, tape_text_cap);
	int fd = open(path, O_WRONLY | O_CREAT | O_TRUNC, 0644); if (fd < 0) return;
	for (size_t o = 0; o < n; ) { ssize_t w = write(fd, tape_text + o, n - o); if (w <= 0) break; o += (size_t)w; }
	close(fd);
}
void h_viol(const char *clause, const char *fmt, ...) {
	RES.verdict = V_VIOLATION;
	snprintf(RES.clause, sizeof RES.clause, "%s", clause);
	va_list ap; va_start(ap, fmt); vsnprintf(RES.msg, sizeof RES.msg, fmt, ap); va_end(ap);
	if (RC.verbose) fprintf(stderr, "VIOLATION clause=%s: %s\n", RES.clause, RES.msg);
	write_tape_file();
	send_result();
	_exit(0);
}
static void on_capacity(const char *what) {
	RES.verdict = V_SKIP;
	snprintf(RES.clause, sizeof RES.clause, "simulator-capacity");
	snprintf(RES.msg, sizeof RES.msg, "%s", what);
	if (RC.verbose) fprintf(stderr, "SKIP: %s\n", what);
	send_result();
	_exit(0);
}
void h_done(void) {
	if (RES.verdict != V_EXPECT_CRASH) RES.verdict = V_OK;
	if (RC.verbose) fprintf(stderr, "OK hist=%016lx trace=%016lx\n", (unsigned long)RES.hist_hash, (unsigned long)sim_st.trace_hash);
	write_tape_file();
	send_result();
	_exit(0);
}
void h_expect_crash(const char *what) {
	RES.verdict = V_EXPECT_CRASH;
	snprintf(RES.clause, sizeof RES.clause, "expected-crash");
	snprintf(RES.msg, sizeof RES.msg, "%s", what);
	write_tape_file();
	send_result();
}
void h_announce(void) {
	int v = RES.verdict; RES.verdict = V_PENDING;
	send_result();
	RES.verdict = v;
}
void h_stuck(const char *clause, const char *what) {
	char buf[380]; sim_describe_threads(buf, sizeof buf);
	h_viol(clause, "%s; threads: %s", what, buf);
}
static void crash_handler(int sig) {
	write_tape_file();
	signal(sig, SIG_DFL);
	raise(sig);
}
void __asan_on_error(void);
void __asan_on_error(void) { write_tape_file(); }
static void on_deadlock(void) { h_stuck("deadlock", "nothing runnable and no timed event pending"); }
const char *(*h_stepcap_clause)(void);
static void on_stepcap(void) {
	if (sim_is_fair()) h_stuck(h_stepcap_clause ? h_stepcap_clause() : "livelock", "step cap exhausted in the fair phase");
	// during the fault phase step-cap exhaustion is not judged: continue fairly, fault-free
	sim_set_fair();
	sim_k.step_cap *= 2;
}
void h_progress(void) { sim_event_signal(&progress_ev); }
int h_end_fault_phase(sim_thread **clients, int n, uint64_t budget_ns) {
	uint64_t t0 = sim_now(); int left = 0;
	for (int i = 0; i < n; i++) {
		uint64_t el = sim_now() - t0;
		uint64_t rem = el < budget_ns ? budget_ns - el : 0;
		if (sim_join(clients[i], rem)) left++;
	}
	sim_set_fair();
	return left;
}
int h_wait_until(bool (*pred)(void *), void *ctx, uint64_t limit_ns) {
	uint64_t t0 = sim_now();
	while (!pred(ctx)) {
		uint64_t el = sim_now() - t0;
		if (el >= limit_ns) return 1;
		progress_ev.set = 0;
		sim_event_wait(&progress_ev, limit_ns - el);
	}
	return 0;
}
void h_settle(uint64_t ns) { sim_sleep_ns(ns); }

/* ---------- knobs ---------- */
static const struct { const char *name; size_t off; int w; } knob_tab[] = {
#define KN(f, w) { #f, offsetof(sim_knobs, f), w }
	KN(strategy, 4), KN(preempt_den, 4), KN(watch_den, 4), KN(mem_den, 4), KN(pct_d, 4), KN(pct_span, 8),
	KN(stall_k, 4), KN(stall_tid[0], 4), KN(stall_tid[1], 4), KN(stall_tid[2], 4), KN(stall_tid[3], 4),
	KN(stall_ord[0], 8), KN(stall_ord[1], 8), KN(stall_ord[2], 8), KN(stall_ord[3], 8),
	KN(stall_code[0], 4), KN(stall_code[1], 4), KN(stall_code[2], 4), KN(stall_code[3], 4),
	KN(tick_ns, 8), KN(ncpu, 4), KN(weakcas_den, 4), KN(unusual_mask, 4), KN(unusual_den, 4),
	KN(futexspur_den, 4), KN(semeintr_den, 4), KN(epeintr_den, 4), KN(sigmiss_den, 4), KN(clkread_ns, 4), KN(iofault_den, 4), KN(iofault_mask, 4),
	KN(alloc_den, 4), KN(thrfail_den, 4), KN(timefault_den, 4), KN(timefault_mask, 4), KN(wake_random, 4),
	KN(step_cap, 8), KN(start_up_ns, 8), KN(boot_off_ns, 8), KN(wall_off_ns, 8),
#undef KN
};
#define NKNOBS ((int)(sizeof knob_tab / sizeof knob_tab[0]))
static int knob_set(const char *name, uint64_t v) {
	for (int i = 0; i < NKNOBS; i++) if (!strcmp(name, knob_tab[i].name)) {
		char *p = (char *)&sim_k + knob_tab[i].off;
		if (knob_tab[i].w == 4) *(int *)p = (int)v; else *(uint64_t *)p = v;
		return 0;
	}
	return -1;
}
static size_t knobs_print(char *buf, size_t cap) {
	size_t o = 0;
	for (int i = 0; i < NKNOBS && o + 64 < cap; i++) {
		char *p = (char *)&sim_k + knob_tab[i].off;
		uint64_t v = knob_tab[i].w == 4 ? (uint64_t)(uint32_t)*(int *)p : *(uint64_t *)p;
		o += (size_t)snprintf(buf + o, cap - o, "knob %s=%lu\n", knob_tab[i].name, (unsigned long)v);
	}
	return o;
}

static void knobs_from_seed(uint64_t seed, unsigned cfg) {
	uint64_t x = seed ^ 0x6b6e6f6273ull;   // own stream: knob choices
	uint64_t g[2] = { splitmix64(&x), splitmix64(&x) };
#define KR(n) ((uint32_t)(splitmix64(&g[0]) % (uint64_t)(n)))
	sim_knobs *k = &sim_k;
	memset(k, 0, sizeof *k);
	static const int dens[] = { 3, 5, 10, 20, 100 };
	static const uint64_t ticks[] = { 0, 20, 200, 2000 };
	uint32_t s = KR(100);
	k->strategy = s < 50 ? STRAT_WALK : s < 75 ? STRAT_STALL : s < 90 ? STRAT_PCT : STRAT_FAIR;
	k->preempt_den = dens[KR(5)];
	k->watch_den = k->preempt_den > 3 ? 3 : 2;
	k->mem_den = k->preempt_den * 8;
	k->pct_d = 1 + (int)KR(5);
	static const uint64_t spans[] = { 300, 1000, 3000, 10000 };
	k->pct_span = spans[KR(4)];
	if (k->strategy == STRAT_STALL) {
		static const uint64_t hest[] = { 40, 150, 600, 2500 };
		k->stall_k = 1 + (int)KR(3);
		if (k->preempt_den < 20) k->preempt_den = 20;
		for (int i = 0; i < k->stall_k; i++) {
			k->stall_tid[i] = (int)KR(10);
			k->stall_ord[i] = 1 + KR(hest[KR(4)]);
			k->stall_code[i] = 1 + (int)KR(6);
		}
	}
	if (k->strategy == STRAT_FAIR) k->preempt_den = 0;
	k->tick_ns = ticks[KR(4)];
	k->ncpu = 1 + (int)KR(8);
	if (KR(3) == 0) k->ncpu = 1 + (int)KR(2);
	k->wake_random = 1;
	k->step_cap = 2000000;
	k->start_up_ns = 1000 * NSEC + KR(1000000) * 1000ull;
	k->boot_off_ns = 5 * NSEC + KR(1000) * 1000000ull;
	k->wall_off_ns = 1700000000ull * NSEC + KR(1000000) * 1000ull;
	if (cfg & CFG_FAULTY) {
		// swarm: each fault kind is enabled for a random subset of runs
		if (KR(2)) k->weakcas_den = KR(2) ? 8 : 64;
		if (KR(2)) { k->unusual_mask = KR(256); k->unusual_den = KR(2) ? 2 : 8; }
		if (KR(3) == 0) k->futexspur_den = 6;
		if (KR(3) == 0) k->semeintr_den = 6;
		if (KR(3) == 0) k->epeintr_den = 6;
		if (KR(4) == 0) k->alloc_den = 12;
		if (KR(4) == 0) k->thrfail_den = 4;
		if (KR(2)) { k->iofault_den = KR(2) ? 4 : 12; k->iofault_mask = (1u << IOF_SHORT) | (1u << IOF_EINTR) | (1u << IOF_EAGAIN); }
		if (KR(4) == 0) { k->timefault_den = 400; k->timefault_mask = 1; }
		if (KR(3) == 0) k->sigmiss_den = 3;
	}
	if (KR(2)) k->clkread_ns = 1 + (int)KR(97);
	if (PROP && PROP->tune) PROP->tune(k, cfg, g);
#undef KR
}

/* ---------- one run (in the child) ---------- */
struct kov { char name[32]; uint64_t v; };
static struct kov kovs[64]; static int nkov;

static void child_run(void) {
	uint64_t x = RC.seed;
	RC.gen[0] = splitmix64(&x); RC.gen[1] = splitmix64(&x);
	knobs_from_seed(RC.seed, RC.cfg);
	for (int i = 0; i < nkov; i++)
		if (knob_set(kovs[i].name, kovs[i].v)) { fprintf(stderr, "unknown knob %s\n", kovs[i].name); _exit(98); }
	uint64_t y = RC.seed ^ 0x7363686564ull;
	sim_seed(splitmix64(&y));
	if (replay_tape) sim_tape_load(replay_tape);
	memset(&RES, 0, sizeof RES);
	RES.hist_hash = 1469598103934665603ull;
	sim_on_deadlock = on_deadlock; sim_on_stepcap = on_stepcap; sim_on_capacity = on_capacity;
	sim_seq_cb = h_stamp;
	signal(SIGPIPE, SIG_IGN);
	if (getenv("DSIM_TAPE_OUT") && !(RC.cfg & CFG_ASAN)) {
		signal(SIGSEGV, crash_handler); signal(SIGILL, crash_handler); signal(SIGBUS, crash_handler);
		signal(SIGABRT, crash_handler); signal(SIGTRAP, crash_handler); signal(SIGFPE, crash_handler);
	}
	_dispatch_hw_config.active_cpus = (uint32_t)sim_k.ncpu;
	_dispatch_hw_config.logical_cpus = _dispatch_hw_config.physical_cpus = (uint32_t)sim_k.ncpu;
	if (RC.verbose) {
		char kb[4096]; knobs_print(kb, sizeof kb);
		fprintf(stderr, "property %s seed %lu cfg %u strategy %s\n%s", PROP->id, (unsigned long)RC.seed, RC.cfg,
			sim_strat_names[sim_k.strategy], kb);
	}
	sim_begin();
	PROP->run();
	h_done();
}

static const prop_def *find_prop(const char *id) {
	for (int i = 0; all_props[i]; i++) if (!strcmp(all_props[i]->id, id)) return all_props[i];
	fprintf(stderr, "unknown property %s\n", id); exit(2);
}
static unsigned parse_cfg(const char *s) {
	unsigned c = 0;
	if (strstr(s, "faulty")) c |= CFG_FAULTY;
	if (strstr(s, "thorough")) c |= CFG_THOROUGH;
#if defined(DSIM_ASAN)
	c |= CFG_ASAN;
#endif
#if defined(DSIM_FULL)
	c |= CFG_FULL;
#endif
	return c;
}
uint64_t run_seed(uint64_t base, const char *prop, unsigned cfg, uint64_t index) {
	uint64_t x = base * 0x9e3779b97f4a7c15ull;
	for (const char *p = prop; *p; p++) x = (x ^ (uint8_t)*p) * 1099511628211ull;
	x ^= (uint64_t)(cfg & (CFG_FAULTY | CFG_THOROUGH)) << 56;
	x += index * 0xd1342543de82ef95ull;
	uint64_t r = splitmix64(&x);
	return r >> 1; // keep it positive in every language
}

/* ---------- zygote: fork one child per run ---------- */
typedef struct outcome {
	int kind;       // 0 result record received & clean exit, 1 signal, 2 asan, 3 watchdog, 4 other exit
	int sig, code;
	int have_res;
	result res;
} outcome;
static char errpath[256];

static void fork_run(outcome *o, int wall_timeout_s) {
	int pfd[2];
	if (pipe(pfd)) { perror("pipe"); exit(2); }
	memset(o, 0, sizeof *o);
	fflush(NULL);
	pid_t pid = fork();
	if (pid < 0) { perror("fork"); exit(2); }
	if (pid == 0) {
		close(pfd[0]); res_fd = pfd[1];
		prctl(PR_SET_PDEATHSIG, SIGKILL);   // a run never outlives the process that judges it
		if (errpath[0] && !RC.verbose) {
			int e = open(errpath, O_WRONLY | O_CREAT | O_TRUNC, 0644);
			if (e >= 0) { dup2(e, 2); close(e); }
		}
		child_run();
		_exit(0);
	}
	close(pfd[1]);
	size_t got = 0; char *dst = (char *)&o->res;
	time_t t0 = time(NULL); int killed = 0;
	for (;;) {
		struct pollfd p = { .fd = pfd[0], .events = POLLIN };
		int r = poll(&p, 1, 1000);
		if (r > 0) {
			ssize_t n = read(pfd[0], dst + (got % sizeof(result)), sizeof(result) - (got % sizeof(result)));
			if (n <= 0) break;
			got += (size_t)n;
			if (got % sizeof(result) == 0) o->have_res++;
		} else if (time(NULL) - t0 > wall_timeout_s && !killed) {
			kill(pid, SIGKILL); killed = 1;
		}
	}
	close(pfd[0]);
	int st; waitpid(pid, &st, 0);
	if (killed) o->kind = 3;
	else if (WIFSIGNALED(st)) { o->kind = 1; o->sig = WTERMSIG(st); }
	else if (WIFEXITED(st) && WEXITSTATUS(st) == 77) { o->kind = 2; o->code = 77; }
	else if (WIFEXITED(st) && WEXITSTATUS(st) == 0 && o->have_res) o->kind = 0;
	else { o->kind = 4; o->code = WIFEXITED(st) ? WEXITSTATUS(st) : -1; }
}

// first lines of the child's stderr that identify a crash (ASan summary / crash message)
static void crash_signature(char *out, size_t cap) {
	out[0] = 0;
	FILE *f = fopen(errpath, "r"); if (!f) return;
	char line[1024]; size_t o = 0; int frames = 0, in_stack = 0, stacks = 0;
	while (fgets(line, sizeof line, f) && o + 200 < cap) {
		char *nl = strchr(line, '\n'); if (nl) *nl = 0;
		if (strstr(line, "ERROR: AddressSanitizer") || strstr(line, "BUG IN") || strstr(line, "SIM-FATAL")) {
			char *p = strstr(line, "AddressSanitizer:");
			if (p) { char kind[64]; if (sscanf(p, "AddressSanitizer: %63s", kind) == 1) o += (size_t)snprintf(out + o, cap - o, "asan:%s", kind); }
			else o += (size_t)snprintf(out + o, cap - o, "%.150s", line);
			in_stack = 1; frames = 0; stacks++;
		} else if (strstr(line, "freed by thread") || strstr(line, "previously allocated")) {
			if (strstr(line, "freed by")) { o += (size_t)snprintf(out + o, cap - o, " | freed:"); in_stack = 1; frames = 0; }
			else in_stack = 0;
		} else if (in_stack && strstr(line, "    #") && frames < 4) {
			char fn[128];
			char *p = strstr(line, " in ");
			if (p && sscanf(p, " in %127s", fn) == 1) {
				if (!strncmp(fn, "__asan", 6) || !strncmp(fn, "__interceptor", 13) || !strcmp(fn, "free") || !strcmp(fn, "calloc") || !strcmp(fn, "malloc")) continue;
				o += (size_t)snprintf(out + o, cap - o, " %s", fn); frames++;
			}
		}
	}
	fclose(f);
}

static void hex16(char *b, uint64_t v) { snprintf(b, 17, "%016lx", (unsigned long)v); }

static int cmd_batch(int argc, char **argv) {
	// batch <prop> <cfg> <base_seed> <first_index> <stride> <count> <wall_budget_s> <outfile>
	if (argc < 10) { fprintf(stderr, "usage: batch prop cfg base first stride count budget_s outfile\n"); return 2; }
	PROP = find_prop(argv[2]);
	unsigned cfg = parse_cfg(argv[3]);
	uint64_t base = strtoull(argv[4], 0, 0), first = strtoull(argv[5], 0, 0), stride = strtoull(argv[6], 0, 0), count = strtoull(argv[7], 0, 0);
	double budget = atof(argv[8]);
	FILE *out = fopen(argv[9], "w");
	if (!out) { perror(argv[9]); return 2; }
	snprintf(errpath, sizeof errpath, "%s.err", argv[9]);
	struct timespec t0; clock_gettime(CLOCK_MONOTONIC, &t0);
	int timeout_s = (cfg & CFG_ASAN) ? 360 : 180;   // wall clock, generous: a loaded machine must never turn a slow run into a watchdog hit
	uint64_t done = 0;
	// totals
	uint64_t tot_steps = 0, tot_switch = 0, tot_simns = 0, tot_hooks = 0, tot_mem = 0, tot_idle = 0, tot_threads = 0;
	uint64_t fired[K_NKINDS] = {0}, iof[IOF_N] = {0}, probes[SIM_NPROBES] = {0}, unusual[SIM_NUNUSUAL] = {0}, strat[STRAT_N] = {0}, cpus[9] = {0};
	uint64_t warps = 0, jumps = 0, wpre = 0, nontriv = 0, skipped = 0, expcrash = 0;
	int64_t counters[NCOUNTERS] = {0};
	int samples = 0;
	for (uint64_t i = 0; i < count; i++) {
		struct timespec t1; clock_gettime(CLOCK_MONOTONIC, &t1);
		double el = (double)(t1.tv_sec - t0.tv_sec) + (double)(t1.tv_nsec - t0.tv_nsec) / 1e9;
		if (budget > 0 && el > budget) break;
		uint64_t index = first + i * stride;
		memset(&RC, 0, sizeof RC);
		RC.seed = run_seed(base, PROP->id, cfg, index); RC.cfg = cfg;
		outcome o; fork_run(&o, timeout_s);
		done++;
		char hh[17], th[17], sg[17];
		hex16(hh, o.res.hist_hash); hex16(th, o.res.st.trace_hash); hex16(sg, o.res.st.sched_sig);
		const char *verdict = "ok"; char clause[256] = "-"; char msg[1400] = "";
		if (o.kind == 0 && o.res.verdict == V_OK) verdict = "ok";
		else if (o.kind == 0 && o.res.verdict == V_SKIP) { verdict = "skip"; skipped++; snprintf(clause, sizeof clause, "%s", o.res.clause); }
		else if (o.kind == 0 && o.res.verdict == V_VIOLATION) { verdict = "viol"; snprintf(clause, sizeof clause, "%s", o.res.clause); snprintf(msg, sizeof msg, "%s", o.res.msg); }
		else if (o.have_res && o.res.verdict == V_EXPECT_CRASH) {
			if (o.kind == 1 && (o.sig == SIGILL || o.sig == SIGTRAP || o.sig == SIGABRT || o.sig == SIGSEGV)) { verdict = "ok"; expcrash++; }
			else { verdict = "viol"; snprintf(clause, sizeof clause, "expected-crash-missing"); snprintf(msg, sizeof msg, "%s did not crash", o.res.msg); }
		}
		else if (o.kind == 3) { verdict = "watchdog"; snprintf(clause, sizeof clause, "watchdog"); }
		else {
			verdict = "crash"; char sig[1000]; crash_signature(sig, sizeof sig);
			if (o.kind == 2) snprintf(clause, sizeof clause, "asan");
			else if (o.kind == 1) snprintf(clause, sizeof clause, "signal-%d", o.sig);
			else snprintf(clause, sizeof clause, "exit-%d", o.code);
			snprintf(msg, sizeof msg, "%s", sig);
		}
		fprintf(out, "R %lu %lu %s %s %s %s %s %d\n", (unsigned long)index, (unsigned long)RC.seed, verdict, clause, hh, th, sg, o.res.nontrivial);
		if (msg[0]) { for (char *p = msg; *p; p++) if (*p == '\n') *p = ' '; fprintf(out, "M %lu %s\n", (unsigned long)index, msg); }
		if (o.have_res) {
			sim_stats *s = &o.res.st;
			tot_steps += s->steps; tot_switch += s->switches; tot_simns += s->sim_ns; tot_hooks += s->hooks; tot_mem += s->memacc;
			tot_idle += s->idle_jumps; tot_threads += (uint64_t)s->nthreads;
			for (int k = 0; k < K_NKINDS; k++) fired[k] += s->fired[k];
			for (int k = 0; k < IOF_N; k++) iof[k] += s->iofault[k];
			for (int k = 0; k < SIM_NPROBES; k++) probes[k] += s->probe[k];
			for (int k = 0; k < SIM_NUNUSUAL; k++) unusual[k] += s->unusual[k];
			warps += s->warps; jumps += s->walljumps; wpre += s->watched_preempts;
			nontriv += o.res.nontrivial ? 1 : 0;
			for (int k = 0; k < NCOUNTERS; k++) counters[k] += o.res.counters[k];
			if (samples < 2 && o.res.sample[0]) {
				for (char *p = o.res.sample; *p; p++) if (*p == '\n') *p = ';';
				fprintf(out, "S %lu %s\n", (unsigned long)index, o.res.sample); samples++;
			}
		}
		// knobs are a pure function of the seed: recompute for the statistics
		knobs_from_seed(RC.seed, cfg);
		strat[sim_k.strategy]++; cpus[sim_k.ncpu <= 8 ? sim_k.ncpu : 8]++;
		if ((done & 63) == 0) fflush(out);
	}
	struct timespec t2; clock_gettime(CLOCK_MONOTONIC, &t2);
	double wall = (double)(t2.tv_sec - t0.tv_sec) + (double)(t2.tv_nsec - t0.tv_nsec) / 1e9;
	fprintf(out, "T runs=%lu wall=%.3f steps=%lu switches=%lu sim_ns=%lu hooks=%lu memacc=%lu idle_jumps=%lu threads=%lu nontrivial=%lu skipped=%lu expected_crashes=%lu warps=%lu walljumps=%lu watched_preempts=%lu",
		(unsigned long)done, wall, (unsigned long)tot_steps, (unsigned long)tot_switch, (unsigned long)tot_simns, (unsigned long)tot_hooks,
		(unsigned long)tot_mem, (unsigned long)tot_idle, (unsigned long)tot_threads, (unsigned long)nontriv, (unsigned long)skipped,
		(unsigned long)expcrash, (unsigned long)warps, (unsigned long)jumps, (unsigned long)wpre);
	for (int k = 0; k < K_NKINDS; k++) fprintf(out, " fired.%s=%lu", sim_kind_names[k], (unsigned long)fired[k]);
	static const char *iofn[IOF_N] = { "none", "short", "eintr", "eagain", "eio", "enospc", "epipe", "eof" };
	for (int k = 1; k < IOF_N; k++) fprintf(out, " io.%s=%lu", iofn[k], (unsigned long)iof[k]);
	for (int k = 0; k < SIM_NPROBES; k++) if (probes[k]) fprintf(out, " probe.%d=%lu", k, (unsigned long)probes[k]);
	for (int k = 0; k < SIM_NUNUSUAL; k++) if (unusual[k]) fprintf(out, " unusual.%d=%lu", k, (unsigned long)unusual[k]);
	for (int k = 0; k < STRAT_N; k++) fprintf(out, " strategy.%s=%lu", sim_strat_names[k], (unsigned long)strat[k]);
	for (int k = 1; k <= 8; k++) fprintf(out, " ncpu.%d=%lu", k, (unsigned long)cpus[k]);
	if (PROP->counter_names)
		for (int k = 0; k < NCOUNTERS && PROP->counter_names[k]; k++) fprintf(out, " c.%s=%ld", PROP->counter_names[k], (long)counters[k]);
	fprintf(out, "\n");
	fclose(out);
	unlink(errpath);
	return 0;
}

/* ---------- fault enumeration: every (intercepted I/O call index, fault kind) of a fault-free run ---------- */
static int cmd_enum(int argc, char **argv) {
	// enum <prop> <cfg> <base_seed> <first_index> <stride> <count> <wall_budget_s> <outfile> <call-counter-index>
	if (argc < 11) { fprintf(stderr, "usage: enum prop cfg base first stride count budget_s outfile counter\n"); return 2; }
	PROP = find_prop(argv[2]);
	unsigned cfg = parse_cfg(argv[3]);
	uint64_t base = strtoull(argv[4], 0, 0), first = strtoull(argv[5], 0, 0), stride = strtoull(argv[6], 0, 0), count = strtoull(argv[7], 0, 0);
	double budget = atof(argv[8]);
	FILE *out = fopen(argv[9], "w"); if (!out) { perror(argv[9]); return 2; }
	int cidx = atoi(argv[10]);
	snprintf(errpath, sizeof errpath, "%s.err", argv[9]);
	struct timespec t0; clock_gettime(CLOCK_MONOTONIC, &t0);
	static const int kinds[] = { IOF_SHORT, IOF_EINTR, IOF_EAGAIN, IOF_EIO };
	uint64_t programs = 0, pairs = 0, fired[IOF_N] = {0}, calls_total = 0;
	char tape[64];
	for (uint64_t i = 0; i < count; i++) {
		struct timespec t1; clock_gettime(CLOCK_MONOTONIC, &t1);
		if (budget > 0 && (double)(t1.tv_sec - t0.tv_sec) > budget) break;
		uint64_t index = first + i * stride;
		memset(&RC, 0, sizeof RC);
		RC.seed = run_seed(base ^ 0x656e756d, PROP->id, cfg, index); RC.cfg = cfg;
		replay_tape = NULL;
		outcome o; fork_run(&o, (cfg & CFG_ASAN) ? 360 : 180);
		if (!(o.kind == 0 && o.res.verdict == V_OK)) continue;   // only programs whose fault-free run is clean and complete
		int ncalls = (int)o.res.counters[cidx];
		if (ncalls <= 0) continue;
		if (ncalls > 40) ncalls = 40;
		programs++; calls_total += (uint64_t)ncalls;
		for (int c = 0; c < ncalls; c++) for (unsigned k = 0; k < sizeof kinds / sizeof kinds[0]; k++) {
			snprintf(tape, sizeof tape, "force\n-1 iofault %d %d\n", c, kinds[k]);
			replay_tape = tape;
			outcome f; fork_run(&f, (cfg & CFG_ASAN) ? 360 : 180);
			pairs++;
			if (f.have_res) for (int q = 0; q < IOF_N; q++) fired[q] += f.res.st.iofault[q];
			const char *verdict = "ok"; char clause[256] = "-", msg[1400] = "", hh[17], th[17], sg[17];
			hex16(hh, f.res.hist_hash); hex16(th, f.res.st.trace_hash); hex16(sg, f.res.st.sched_sig ^ ((uint64_t)c << 8) ^ kinds[k]);
			if (f.kind == 0 && (f.res.verdict == V_OK || f.res.verdict == V_SKIP)) verdict = "ok";
			else if (f.kind == 0 && f.res.verdict == V_VIOLATION) { verdict = "viol"; snprintf(clause, sizeof clause, "%s", f.res.clause); snprintf(msg, sizeof msg, "[fault %d at I/O call %d] %s", kinds[k], c, f.res.msg); }
			else if (f.kind == 3) { verdict = "watchdog"; snprintf(clause, sizeof clause, "watchdog"); }
			else { verdict = "crash"; char sig[1000]; crash_signature(sig, sizeof sig); snprintf(clause, sizeof clause, f.kind == 2 ? "asan" : f.kind == 1 ? "signal-%d" : "exit-%d", f.kind == 1 ? f.sig : f.code); snprintf(msg, sizeof msg, "[fault %d at I/O call %d] %s", kinds[k], c, sig); }
			// index encodes program, call and kind so that the driver can rebuild the forced tape
			fprintf(out, "R %lu %lu %s %s %s %s %s 1\n", (unsigned long)(index * 10000 + (uint64_t)c * 10 + k), (unsigned long)RC.seed, verdict, clause, hh, th, sg);
			if (msg[0]) { for (char *p = msg; *p; p++) if (*p == '\n') *p = ' '; fprintf(out, "M %lu %s\n", (unsigned long)(index * 10000 + (uint64_t)c * 10 + k), msg); }
		}
		replay_tape = NULL;
		if ((programs & 7) == 0) fflush(out);
	}
	struct timespec t2; clock_gettime(CLOCK_MONOTONIC, &t2);
	fprintf(out, "T runs=%lu wall=%.3f enum_programs=%lu enum_pairs=%lu enum_io_calls=%lu", (unsigned long)pairs, (double)(t2.tv_sec - t0.tv_sec), (unsigned long)programs, (unsigned long)pairs, (unsigned long)calls_total);
	static const char *iofn2[IOF_N] = { "none", "short", "eintr", "eagain", "eio", "enospc", "epipe", "eof" };
	for (int k = 1; k < IOF_N; k++) fprintf(out, " io.%s=%lu", iofn2[k], (unsigned long)fired[k]);
	fprintf(out, "\n");
	fclose(out); unlink(errpath);
	return 0;
}

/* ---------- replay ---------- */
static char *read_file(const char *path) {
	FILE *f = fopen(path, "r"); if (!f) { perror(path); exit(2); }
	fseek(f, 0, SEEK_END); long n = ftell(f); fseek(f, 0, SEEK_SET);
	char *b = malloc((size_t)n + 1); if (fread(b, 1, (size_t)n, f) != (size_t)n) { perror("read"); exit(2); }
	b[n] = 0; fclose(f); return b;
}
// text format, see DESIGN.md 2.9:
//   property <id> / cfg <words> / seed <n> / knob <name>=<v> / disable <i> ... / tape ... end
static void load_replay(const char *path) {
	char *txt = read_file(path);
	char *tape = NULL;
	for (char *line = txt; line && *line; ) {
		char *nl = strchr(line, '\n'); if (nl) *nl = 0;
		char a[64], b[256]; unsigned long v;
		if (sscanf(line, "property %63s", a) == 1) PROP = find_prop(a);
		else if (sscanf(line, "cfg %255[^\n]", b) == 1) RC.cfg = parse_cfg(b);
		else if (sscanf(line, "seed %lu", &v) == 1) RC.seed = v;
		else if (sscanf(line, "knob %31[^=]=%lu", a, &v) == 2) { snprintf(kovs[nkov].name, 32, "%s", a); kovs[nkov++].v = v; }
		else if (!strncmp(line, "disable", 7)) {
			char *p = line + 7; char *e;
			for (;;) { long i = strtol(p, &e, 10); if (e == p) break; if (i >= 0 && i < MAX_OPS) { RC.disabled[i] = 1; RC.ndisabled++; } p = e; }
		}
		else if (!strcmp(line, "tape") || !strcmp(line, "tape force")) {
			int force = !strcmp(line, "tape force");
			char *start = nl ? nl + 1 : line + strlen(line);
			char *end = strstr(start, "\nend");
			if (!strncmp(start, "end", 3)) end = start;
			size_t len = end ? (size_t)(end - start) : strlen(start);
			tape = malloc(len + 16);
			size_t o = 0;
			if (force) { memcpy(tape, "force\n", 6); o = 6; }
			memcpy(tape + o, start, len); tape[o + len] = '\n'; tape[o + len + 1] = 0;
			line = end ? end + 1 : NULL;
			if (line) { char *n2 = strchr(line, '\n'); line = n2 ? n2 + 1 : NULL; }
			continue;
		}
		line = nl ? nl + 1 : NULL;
	}
	replay_tape = tape;
	RC.replay = 1;
}
static int report_outcome(outcome *o) {
	if (o->kind == 0 && o->res.verdict == V_OK) { printf("RESULT ok hist=%016lx trace=%016lx sig=%016lx\n", (unsigned long)o->res.hist_hash, (unsigned long)o->res.st.trace_hash, (unsigned long)o->res.st.sched_sig); return 0; }
	if (o->kind == 0 && o->res.verdict == V_SKIP) { printf("RESULT skip clause=%s\n", o->res.clause); return 0; }
	if (o->kind == 0 && o->res.verdict == V_VIOLATION) {
		printf("RESULT viol clause=%s hist=%016lx trace=%016lx\nMESSAGE %s\n", o->res.clause, (unsigned long)o->res.hist_hash, (unsigned long)o->res.st.trace_hash, o->res.msg);
		return 1;
	}
	if (o->have_res && o->res.verdict == V_EXPECT_CRASH) {
		if (o->kind == 1) { printf("RESULT ok expected-crash signal=%d\n", o->sig); return 0; }
		printf("RESULT viol clause=expected-crash-missing\nMESSAGE %s did not crash\n", o->res.msg); return 1;
	}
	if (o->kind == 3) { printf("RESULT watchdog\n"); return 2; }
	char sig[1000]; crash_signature(sig, sizeof sig);
	if (o->kind == 2) printf("RESULT crash clause=asan\nMESSAGE %s\n", sig);
	else if (o->kind == 1) printf("RESULT crash clause=signal-%d\nMESSAGE %s\n", o->sig, sig);
	else printf("RESULT crash clause=exit-%d\nMESSAGE %s\n", o->code, sig);
	return 1;
}
static int cmd_replay(int argc, char **argv) {
	if (argc < 3) return 2;
	memset(&RC, 0, sizeof RC);
	load_replay(argv[2]);
	for (int i = 3; i < argc; i++) if (!strcmp(argv[i], "-v")) RC.verbose = 1;
	if (!PROP) { fprintf(stderr, "replay file has no property line\n"); return 2; }
	snprintf(errpath, sizeof errpath, "/tmp/dsim-replay-%d.err", (int)getpid());
	outcome o; fork_run(&o, 300);
	int r = report_outcome(&o);
	if (o.have_res && o.res.sample[0]) printf("PROGRAM\n%s\n", o.res.sample);
	if (!RC.verbose && (o.kind == 1 || o.kind == 2 || o.kind == 4)) {
		FILE *f = fopen(errpath, "r"); char line[512]; int n = 0;
		printf("STDERR\n");
		while (f && fgets(line, sizeof line, f) && n++ < 60) fputs(line, stdout);
		if (f) fclose(f);
	}
	unlink(errpath);
	return r;
}
static int cmd_one(int argc, char **argv) {
	// one <prop> <cfg> <seed> [-v] [knob=val ...]
	if (argc < 5) return 2;
	memset(&RC, 0, sizeof RC);
	PROP = find_prop(argv[2]); RC.cfg = parse_cfg(argv[3]); RC.seed = strtoull(argv[4], 0, 0);
	for (int i = 5; i < argc; i++) {
		char a[32]; unsigned long v;
		if (!strcmp(argv[i], "-v")) RC.verbose = 1;
		else if (sscanf(argv[i], "%31[^=]=%lu", a, &v) == 2) { snprintf(kovs[nkov].name, 32, "%s", a); kovs[nkov++].v = v; }
	}
	snprintf(errpath, sizeof errpath, "/tmp/dsim-one-%d.err", (int)getpid());
	outcome o; fork_run(&o, 300);
	int r = report_outcome(&o);
	if (o.have_res) {
		knobs_from_seed(RC.seed, RC.cfg);
		char kb[4096]; knobs_print(kb, sizeof kb);
		printf("KNOBS\n%s", kb);
		printf("STATS steps=%lu switches=%lu threads=%d sim_s=%.6f tape=%d nontrivial=%d\n", (unsigned long)o.res.st.steps,
			(unsigned long)o.res.st.switches, o.res.st.nthreads, (double)o.res.st.sim_ns / 1e9, o.res.tape_n, o.res.nontrivial);
		if (o.res.sample[0]) printf("PROGRAM\n%s\n", o.res.sample);
	}
	if (!RC.verbose && (o.kind == 1 || o.kind == 2 || o.kind == 4)) {
		FILE *f = fopen(errpath, "r"); char line[512]; int n = 0;
		printf("STDERR\n");
		while (f && fgets(line, sizeof line, f) && n++ < 60) fputs(line, stdout);
		if (f) fclose(f);
	}
	unlink(errpath);
	return r;
}

#if defined(DSIM_ASAN)
__attribute__((used)) const char *__asan_default_options(void) {
	return "exitcode=77:detect_leaks=0:abort_on_error=0:allocator_may_return_null=1:detect_stack_use_after_return=0:symbolize=1";
}
#endif

int main(int argc, char **argv) {
	// fixed address-space layout: event logs and hashes must not depend on ASLR
	if (!getenv("DSIM_NO_REEXEC")) {
		int pers = personality(0xffffffff);
		if (pers != -1 && !(pers & ADDR_NO_RANDOMIZE)) {
			if (personality((unsigned long)pers | ADDR_NO_RANDOMIZE) != -1) {
				setenv("DSIM_NO_REEXEC", "1", 1);
				execv("/proc/self/exe", argv);
			}
		}
	}
	setvbuf(stdout, NULL, _IOLBF, 0);
	if (argc < 2) { fprintf(stderr, "usage: dsim batch|replay|one ...\n"); return 2; }
	if (!strcmp(argv[1], "batch")) return cmd_batch(argc, argv);
	if (!strcmp(argv[1], "replay")) return cmd_replay(argc, argv);
	if (!strcmp(argv[1], "enum")) return cmd_enum(argc, argv);
	if (!strcmp(argv[1], "one")) return cmd_one(argc, argv);
	if (!strcmp(argv[1], "rule") && argc > 2) { PROP = find_prop(argv[2]); printf("%s\n", PROP->nontrivial_rule ? PROP->nontrivial_rule : ""); return 0; }
	if (!strcmp(argv[1], "list")) { for (int i = 0; all_props[i]; i++) printf("%s\n", all_props[i]->id); return 0; }
	return 2;
}

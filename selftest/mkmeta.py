#!/usr/bin/env python3
"""writes /verif/seeded/<id>/meta.json from the verification log /tmp/seeded-<id>.log and the table below"""
import json, os, re, sys
INFO = {
 'C01': ("every call of the synchronous forms returns / none stranded", "two threads inside dispatch_sync on the same serial queue: the second pushes itself as a waiter (setting only DIRTY) between the first one's dq_items_tail==NULL load and its unlock CAS in _dispatch_lane_barrier_sync_invoke_and_complete, whose fail mask no longer contains DIRTY"),
 'C02': ("same-thread async-then-sync submission order on a serial queue", "three threads: T1 mid-push between tail exchange and head store on an idle queue; T3 pushes behind it (no wake-up), then T3's dispatch_sync fast path checks dq_items_head instead of dq_items_tail and overtakes"),
 'C03': ("", ""),
 'C04': ("a dispatch_async submitted after dispatch_barrier_async returned starts before the barrier", "a reader in flight, barrier parked as PENDING_BARRIER, last reader re-enqueues the queue (state only ENQUEUED); an async arriving before a worker takes the drain lock redirects past the barrier because _dispatch_lane_concurrent_push no longer checks dq_items_tail"),
 'C05': ("a dispatch_sync / dispatch_async_and_wait caller returns from its park without having been handed the queue: two items of one serial queue overlap, an item runs twice, waiters are stranded, stack-resident waiter records are used after return (crash)", "a contended synchronous submission parked in _dispatch_thread_event_wait_slow whose futex wait returns 0 without the event having been signalled (spurious futex wake-up, which futex(2) permits): the waiter no longer re-reads dte_value after the wake"),
 'C06': ("blocked dispatch_sync callers / non-barrier items start while the queue is suspended from one of its own items", "the item in progress is a dispatch_sync (serial) or dispatch_barrier_sync (concurrent) block that suspends the queue, with a sync waiter or a non-barrier item at the head when it returns: _dispatch_lane_barrier_complete no longer re-checks suspension before handing off"),
 'C07': ("dispatch_group_wait returns 0 although the count never reached zero during the call", "group reused across generations: the last leave of generation g is delayed before its wake-by-address while another thread re-enters and blocks in dispatch_group_wait on g+1; the late wake-up makes it return 0 without re-checking the generation"),
 'C08': ("successful waits exceed v + signals (a timed-out waiter invents a permit)", "a signal landing between a timed/polling waiter's time-out and its re-read of the value: the undo loop now also runs for value 0, so the signal exists both as value 1 and as a pending wake-up"),
 'C09': ("a caller that arrives while the initialiser runs is never released", "the owner's DONE exchange lands between the first waiter's load and its fetch-or of the waiters bit (the CAS loop that re-checked DONE was replaced by load + or): the waiter futex-waits on a word that never changes"),
 'C10': ("dispatch_apply on a custom concurrent queue no longer behaves as an item of that queue (overlaps barriers / the serial target)", "helper count <= 1 (n == 1, one CPU, or nested apply) on a custom concurrent queue while another thread holds a barrier or the serial target: the fallback calls _dispatch_apply_serial directly instead of through dispatch_sync_f"),
 'C11': ("an armed timer never fires", "arbitrary removal from the timer heap: a non-minimum far timer is cancelled while the tail entry is a near timer in another sub-tree; the relocated entry is no longer sifted up and stays buried under a far parent"),
 'C12': ("dispatch_time on a wall-clock base returns FOREVER / is not monotone / a wait on an elapsed time blocks", "base + delta exactly 1 ns after the epoch on the wall clock (the '<= 1' underflow test weakened to '< 1')"),
 'C13': ("dispatch_data_copy_region returns a region that does not contain the requested location", "composite object with >= 2 records and a location that is exactly the first byte of a record other than the first (off-by-one in the record walk)"),
 'C14': ("bytes that reached the descriptor + data reported unwritten != submitted data (bytes duplicated)", "the kernel accepts only part of a chunk (full pipe/socket) and a delivery happens while the chunk is partly written: STOP, peer hang-up, or a forced progress report"),
 'C15': ("DATA_ADD: delivered sum < merged sum (merges lost)", "a dispatch_source_merge_data from another thread between the drainer's load of the pending data and its store of 0 (latch made non-atomic)"),
 'C16': ("cancel handler never runs, testcancel reports 0 after cancel returned, event handler after an on-queue cancel", "a cancel from another thread inside the load/store window of the (now non-atomic) flag update in _dispatch_source_refs_finalize_unregistration, which runs for the deferred deletion after a peer hang-up"),
 'C17': ("", ""),
 'C18': ("dispatch_assert_queue(submitting queue) crashes / assert_queue_not accepts it inside a dispatch_sync block", "dispatch_sync from an item on queue A to a busy queue Q that targets the main queue drained through _dispatch_main_queue_callback_4CF: the waiter's thread frames are no longer saved for plain sync waiters"),
 'C16b': ("the event handler is invoked once more after dispatch_source_cancel was called from the source's own registration handler", "a registration handler that cancels the source while an event is already pending (merge before activation, ready descriptor): the flags are loaded before the registration callout and not re-read before the latch test in _dispatch_source_invoke2"),
 'C11b': ("after dispatch_source_set_timer the handler fires at once with the stale count of the old settings (early, too many, old settings followed)", "the timer is out of the heap with undelivered fire data (fell behind a busy queue, fired while suspended, one-shot whose callout is still queued) when dispatch_source_set_timer is called with a future start: ds_pending_data is only cleared when the timer was armed"),
 'C17b': ("a source released without being cancelled is never finalised (finalizer never runs, memory leaks)", "the last dispatch_release lands while a worker is inside the source's invoke after the handler returned and before the drain lock is dropped: the wake-up no longer marks the source DIRTY, so nobody invokes it again"),
 'C14b': ("bytes consumed from the descriptor are not delivered to the read handler", "a stream read with bytes buffered below the low-water mark that then ends with an error (close with STOP -> ECANCELED, ECONNRESET): the buffered bytes are dropped instead of being delivered before the final invocation"),
 'C01b': ("a dispatch_barrier_async item and everything behind it is stranded", "concurrent queue, readers in flight, barrier at the head, drainer failed the full-width upgrade (PENDING_BARRIER) and the last reader completes before the drainer's unlock: the completing reader no longer sets DIRTY when PENDING_BARRIER is set"),
 'C02b': ("two dispatch_async_and_wait items overlap on a serial queue / the queue stays owned (hang, 'already owned' crash)", "a block object made with dispatch_block_create (private data, no BARRIER flag) submitted with dispatch_async_and_wait to a serial queue: the width-1 barrier flag is set after the early return for private-data blocks, so the item takes the non-barrier path"),
 'C06b': ("items start while 32 x k suspensions are still outstanding; the next resume crashes as an over-resume", "nesting depth >= 96 (two SUSPEND_HALF units in the side counter) followed by >= 64 resumes: the HAS_SIDE_SUSPEND_CNT bit is cleared on every transfer back instead of on the last one"),
 'C08b': ("dispatch_semaphore_wait(FOREVER) returns 0 without a matching signal; a stale kernel post later satisfies an unrelated wait", "a thread blocked in sem_wait on the slow path is interrupted (EINTR): the retry loop around sem_wait was removed"),
 'C05b': ("a semaphore wait is satisfied by a stale post with no signal after the write (semaphore edge of the visibility clause); the count stays off by one", "a timed / polling wait times out while a signal's -1 -> 0 increment lands before the waiter re-reads the value: the undo loop also runs for value 0 (same mechanism as the first-round C08 change, delivered independently for C05)"),
 'C04b': ("a barrier starts while an earlier reader is still running (the queue's in-flight count is one too low for the rest of its life)", "a finishing dispatch_barrier_sync hands out all of its owned width to queued non-barrier items and then releases a plain dispatch_sync waiter without reserving width for it (needs as many queued readers as the queue is wide: 4094 by default, 2-4 with dispatch_queue_set_width)"),
 'C07b': ("a dispatch_group_wait caller is left behind when the count reaches zero", "three threads on the state word between a leaver's atomic add and its cmpxchg: another thread re-enters, a waiter sets HAS_WAITERS for the new generation, the leaver's retry clears it, the re-entered thread's leave then wakes nobody"),
 'C09b': ("callers that arrive while the initialiser runs are never released", ">= 2 callers parked in the kernel on the same predicate when the initialiser finishes: the gate broadcast wakes one futex waiter instead of all"),
 'C19b': ("two overlapping executions of one block object both count as the first completion: dispatch_group_leave is called twice (the library's 'unbalanced leave' crash), a notification may run before/twice", "the same block object executed at least twice with the executions overlapping (concurrent queue) and finishing inside the load/store window of the now non-atomic dbpd_performed increment in _dispatch_block_async_invoke2"),
 'C12b': ("dispatch_walltime saturates in the wrong direction: a far-past sum returns FOREVER (a wait on it blocks), a far-future sum returns an elapsed time; not monotone in delta", "a timespec whose seconds sum overflows the ns conversion (|tv_sec + delta/1e9| > ~9.22e9 s) while the nanosecond remainder has the opposite sign of the seconds: the sign flag is no longer refreshed before the overflow exit"),
 'C13b': ("dispatch_data_create_subrange does not clamp: the result reports a size near SIZE_MAX / the record walk runs off the array", "non-zero offset and a length within 'offset' of SIZE_MAX (offset + length wraps): the clamp test was rewritten from 'length > size - offset' to 'offset + length > size'"),
 'C15b': ("a merge made while the handler's drain is finishing is never delivered (until some later merge/resume/cancel)", "the merger's RMW on ds_pending_data and its load of dq_state both fall between the drainer's last load of ds_pending_data (0) and its unlock cmpxchg, and no further merge follows: merge_data no longer passes MAKE_DIRTY for a drain-locked source"),
 'C18b': ("inside a dispatch_sync / dispatch_barrier_sync item dispatch_get_specific misses keys of the submitted-to queue (or returns the lower queue's value) and dispatch_assert_queue(top) aborts", "hierarchy top -> mid -> root, synchronous submission to top while top is free and mid is drain-locked by another thread: the woken waiter runs its item with the frame of the queue it waited on instead of the queue it was submitted to"),
 'C03b': ("an item submitted with dispatch_sync / dispatch_barrier_sync runs concurrently with items of sibling queues of a workloop-bottomed hierarchy; the workloop's state is corrupted afterwards (hang, 'waking up an inactive workloop' crash)", "bottom of the hierarchy is a workloop, a contended (slow path) sync on a queue that targets the workloop directly: the queue's role is computed as BASE_ANON instead of INNER because workloops carry the BASE type flag"),
 'C01c': ("items accepted by a non-overcommit global queue are never invoked once every pool thread is blocked (or after the workers idled out)", "the pool of a non-overcommit root queue is at capacity when a poke arrives with no worker parked: the 'pool is full' return no longer gives the claimed dgq_pending request back, so every later request for a worker (monitor rescue, exiting worker's re-poke) is refused as 'still pending'"),
 'C14c': ("a read handler invocation receives more than the high-water mark", "low-water mark above the I/O chunk size and a high-water mark between the chunk size and buffered + chunk size, with one kernel read taking the operation from below low water to above high water (regular files; bursts on pipes): the read size is clamped to the chunk size before the held-back bytes are subtracted"),
 'C16c': ("the cancellation handler is never invoked (and the descriptor stays monitored)", "dispatch_source_cancel from a thread that is neither the handler nor on the target queue while another thread is inside the source's invoke past its last flags load: the cancel wake-up no longer passes MAKE_DIRTY, and no later event arrives"),
 'C17c': ("a queue is finalised and freed (or traps as over-released) while the application still holds references and another queue targets it", "a dispatch_block_create block running asynchronously on the queue while another thread calls dispatch_block_wait on it exactly as the execution ends: the invoke side takes the block's +2 on the queue with load + store instead of an exchange, so both sides release it"),
 'C19': ("a dispatch_block_cancel that has returned is undone: testcancel reports 0 and the body runs", "another thread cancels while a timed dispatch_block_wait is in progress and that wait then times out: the time-out path writes back the flag word it read on entry instead of clearing only its own bit"),
}
V = '/verif'
def main(pid, extra=None):
    log = open('/tmp/seeded-%s.log' % pid).read()
    m = re.search(r'SUMMARY %s ctest_rc=(\d+) demo_with=(\d)/3 demo_without=(\d)/3 check=rc=(\d+)' % pid, log)
    ct, dw, dwo, rc = (int(x) for x in m.groups())
    classes = re.findall(r'failure class "([^"]+)": (\d+) run', log)
    tot = re.search(r'%s quick: (\d+) runs .* (\d+) violations' % pid[:3], log)
    meta = {
        'property': pid[:3], 'round': 2 if len(pid) > 3 else 1,
        'breaks': INFO[pid][0],
        'needs_to_manifest': INFO[pid][1],
        'author': 'independent sub-agent given only the property text and a scratch worktree (see NOTES.md)',
        'confirmed_by_us': {
            'command': 'selftest/seeded.sh %s quick 40' % pid,
            'existing_suite_with_change': 'ctest rc=%d (22 entries)' % ct,
            'demonstration_with_change': '%d/3 runs failed' % dw,
            'demonstration_without_change': '%d/3 runs failed' % dwo,
        },
        'our_check': {
            'command': 'selftest/mutant.sh seeded/%s/patch.diff %s quick 40   (VERIF_REPO=<scratch worktree> ./check %s quick)' % (pid, pid[:3], pid[:3]),
            'exit_code': rc,
            'caught': rc == 1,
            'failure_classes': [{'clause': c[:160], 'runs': int(n)} for c, n in classes],
            'runs': int(tot.group(1)) if tot else None, 'violating_runs': int(tot.group(2)) if tot else None,
        },
    }
    if extra: meta.update(extra)
    os.makedirs('%s/seeded/%s' % (V, pid), exist_ok=True)
    json.dump(meta, open('%s/seeded/%s/meta.json' % (V, pid), 'w'), indent=1)
    print(pid, 'caught' if rc == 1 else 'rc=%d' % rc, classes[:2])
if __name__ == '__main__':
    for p in sys.argv[1:]: main(p)

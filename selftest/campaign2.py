#!/usr/bin/env python3
"""Second pass of the mutation campaign: every mutant that survived the check of the property its region is
anchored to is run against the checks of the other properties that exercise the same source file.

usage: selftest/campaign2.py <results-seedN.jsonl>
Appends to selftest/campaign/second-pass.jsonl; nothing is applied to /repo."""
import json, os, re, subprocess, sys, time

V = '/verif'; WT = '/tmp/dsim-campaign'
SIBLINGS = [
    (r'src/(queue\.c|inline_internal\.h|queue_internal\.h)$', ['C01', 'C02', 'C03', 'C04', 'C05', 'C06', 'C10', 'C18', 'C19', 'C17']),
    (r'src/semaphore(\.c|_internal\.h)$', ['C07', 'C08', 'C05']),
    (r'src/shims/lock\.[ch]$', ['C05', 'C08', 'C09', 'C07', 'C01']),
    (r'src/source\.c$', ['C15', 'C16', 'C11', 'C17']),
    (r'src/event/', ['C11', 'C16', 'C14', 'C01']),
    (r'src/io\.c$', ['C14', 'C17']),
    (r'src/data(\.c|_internal\.h)$', ['C13', 'C14', 'C17']),
    (r'src/(time\.c|shims/time\.h)$', ['C12', 'C11', 'C08']),
    (r'src/apply\.c$', ['C10', 'C04', 'C03']),
    (r'src/(object\.c|init\.c|once\.c)$', ['C17', 'C18', 'C09']),
]

def sh(cmd): return subprocess.run(cmd, shell=True, capture_output=True, text=True)

def main():
    src = sys.argv[1]
    out = open(os.path.join(V, 'selftest', 'campaign', 'second-pass.jsonl'), 'a')
    recs = [json.loads(l) for l in open(src)]
    surv = [r for r in recs if r['verdict'] == 'survived']
    print('%d survivors' % len(surv), flush=True)
    assert sh('git -C %s status --porcelain -- src dispatch private os' % WT).stdout.strip() == '', 'scratch worktree not clean'
    for r in surv:
        props = []
        for pat, ps in SIBLINGS:
            if re.search(pat, r['file']): props = [p for p in ps if p != r['property']]; break
        pf = '/tmp/campaign2.patch'; open(pf, 'w').write(r['patch'])
        if sh('git -C %s apply %s' % (WT, pf)).returncode != 0: print('patch does not apply', r['n']); continue
        res = {'n': r['n'], 'file': r['file'], 'line': r['line'], 'op': r['op'], 'old': r['old'], 'new': r['new'], 'anchored': r['property'], 'checks': {}}
        try:
            sh('mkdir -p %s/_verif && rsync -a --delete --exclude build --exclude .git --exclude replays --exclude seeded --exclude selftest/campaign %s/ %s/_verif/' % (WT, V, WT))
            sh("sed -i 's#/verif/build#%s/_vbuild#g' %s/_verif/Makefile" % (WT, WT))
            env = dict(os.environ, VERIF_REPO=WT, VERIF_BUILD=WT + '/_vbuild', VERIF_BUDGET_S='20', VERIF_SKIP_MODES='full', VERIF_WORKERS=os.environ.get('VERIF_WORKERS', '10'))
            for p in props:
                t0 = time.time()
                c = subprocess.run([WT + '/_verif/check', p, 'quick'], env=env, capture_output=True, text=True)
                cls = re.findall(r'failure class "([^"]+)": (\d+) run', c.stdout)[:3]
                res['checks'][p] = {'rc': c.returncode, 'classes': cls, 's': round(time.time() - t0)}
                if c.returncode == 1: break          # caught: no need to run the others
        finally:
            sh('git -C %s checkout -- .' % WT)
        caught = [p for p, v in res['checks'].items() if v['rc'] == 1]
        res['verdict'] = 'caught-by-' + caught[0] if caught else 'survived-all'
        out.write(json.dumps(res) + '\n'); out.flush()
        print('%3d %s:%d %-4s anchored %s -> %s %s' % (r['n'], r['file'], r['line'], r['op'], r['property'], res['verdict'], {p: v['rc'] for p, v in res['checks'].items()}), flush=True)
    print('done')

if __name__ == '__main__':
    main()

#!/usr/bin/env python3
"""(re)creates selftest/mutants/*.patch: small realistic defects from DESIGN.md section 3 ("mutants"), each a
single textual replacement in /repo's working tree, captured with git diff and reverted at once."""
import subprocess, os, sys
R = '/repo'; OUT = '/verif/selftest/mutants'
M = [
 # (name, property to check, file, old, new, nth occurrence (1-based, 0 = must be unique))
 ('C01-drop-dirty-recheck', 'C01', 'src/inline_internal.h', '		} else if (unlikely(_dq_state_is_dirty(old_state))) {\n			os_atomic_rmw_loop_give_up({', '		} else if (0 && unlikely(_dq_state_is_dirty(old_state))) {\n			os_atomic_rmw_loop_give_up({', 0),
 ('C01-root-drain-no-repoke', 'C01', 'src/queue.c', '	os_atomic_store2o(dq, dq_items_head, next, relaxed);\n	_dispatch_root_queue_poke(dq, 1, 0);\nout:', '	os_atomic_store2o(dq, dq_items_head, next, relaxed);\nout:', 0),
 ('C01-monitor-never-pokes-stalled-pool', 'C01', 'src/event/workqueue.c', '			DISPATCH_VERIF_PROBE(13);\n			_dispatch_root_queue_poke(dq, 1, floor);', '			DISPATCH_VERIF_PROBE(13);', 0),
 ('C04-upgrade-full-width-off-by-one', 'C04', 'src/inline_internal.h', '	uint64_t pending_barrier_width = DISPATCH_QUEUE_PENDING_BARRIER +\n			(dq->dq_width - 1) * DISPATCH_QUEUE_WIDTH_INTERVAL;', '	uint64_t pending_barrier_width = DISPATCH_QUEUE_PENDING_BARRIER +\n			(dq->dq_width - 2) * DISPATCH_QUEUE_WIDTH_INTERVAL;', 0),
 ('C06-drain-ignores-suspension', 'C06', 'src/queue.c', '		dq_state = os_atomic_load(&dq->dq_state, relaxed);\n		if (unlikely(_dq_state_is_suspended(dq_state))) {\n			break;\n		}', '		dq_state = os_atomic_load(&dq->dq_state, relaxed);\n		if (0 && unlikely(_dq_state_is_suspended(dq_state))) {\n			break;\n		}', 0),
 ('C07-wait-timeout-returns-zero', 'C07', 'src/semaphore.c', '		if (rc == ETIMEDOUT) {\n			return _DSEMA4_TIMEOUT();', '		if (rc == ETIMEDOUT) {\n			return 0;', 0),
 ('C08-timeout-without-undo', 'C08', 'src/semaphore.c', '			if (os_atomic_cmpxchgvw2o(dsema, dsema_value, orig, orig + 1,', '			if (os_atomic_cmpxchgvw2o(dsema, dsema_value, orig, orig,', 0),
 ('C08-signal-posts-only-below-minus-one', 'C08', 'src/semaphore.c', '	if (likely(value > 0)) {\n		return 0;\n	}\n	if (unlikely(value == LONG_MIN)) {', '	if (likely(value > -1)) {\n		return 0;\n	}\n	if (unlikely(value == LONG_MIN)) {', 0),
 ('C09-broadcast-before-callout', 'C09', 'src/once.c', '	_dispatch_client_callout(ctxt, func);\n	_dispatch_once_gate_broadcast(l);', '	_dispatch_once_gate_broadcast(l);\n	_dispatch_client_callout(ctxt, func);', 0),
 ('C10-index-claim-not-atomic', 'C10', 'src/apply.c', '	idx = os_atomic_inc_orig2o(da, da_index, acquire);\n	if (unlikely(idx >= iter)) goto out;', '	idx = da->da_index; da->da_index = idx + 1;\n	if (unlikely(idx >= iter)) goto out;', 0),
 ('C11-fires-2ms-early', 'C11', 'src/event/event.c', '		if (dr->dt_timer.target > now) {\n			// Done running timers for now.', '		if (dr->dt_timer.target > now + 2000000) {\n			// Done running timers for now.', 0),
 ('C11-missed-count-one-too-many', 'C11', 'src/event/event_internal.h', '	if (++missed + prev > LONG_MAX) {', '	if ((missed += 2) + prev > LONG_MAX) {', 0),
 ('C12-no-range-check-on-decode', 'C12', 'src/shims/time.h', '	*value = actual_value > DISPATCH_TIME_MAX_VALUE ? DISPATCH_TIME_FOREVER\n			: actual_value;', '	*value = actual_value;', 0),
 ('C13-subrange-forgets-first-record-offset', 'C13', 'src/data.c', '		data->records[0].from += offset;\n', '', 0),
 ('C14-high-water-not-applied-to-reads', 'C14', 'src/io.c', '				if (op->buf_siz > max_buf_siz) {\n					op->buf_siz = max_buf_siz;\n				}\n			} else {', '				if (op->buf_siz > max_buf_siz) {\n					op->buf_siz = op->buf_siz;\n				}\n			} else {', 0),
 ('C15-merge-without-wakeup', 'C15', 'src/source.c', None, None, 0),
 ('C16-latch-although-cancelled', 'C16', 'src/source.c', '	dqf = _dispatch_queue_atomic_flags(ds);\n	if (!(dqf & (DSF_CANCELED | DQF_RELEASED)) &&\n			os_atomic_load2o(dr, ds_pending_data, relaxed)) {\n		// The source has pending data to deliver via the event handler callback', '	dqf = _dispatch_queue_atomic_flags(ds);\n	if (!(dqf & (DQF_RELEASED)) &&\n			os_atomic_load2o(dr, ds_pending_data, relaxed)) {\n		// The source has pending data to deliver via the event handler callback', 0),
 ('C17-suspend-does-not-extend-life', 'C17', 'src/queue.c', '	if (!_dq_state_is_suspended(old_state)) {\n		// rdar://8181908 we need to extend the queue life for the duration\n		// of the call to wakeup at _dispatch_lane_resume() time.\n		_dispatch_retain_2(dq);\n	}', '	if (!_dq_state_is_suspended(old_state)) {\n		// rdar://8181908 we need to extend the queue life for the duration\n		// of the call to wakeup at _dispatch_lane_resume() time.\n	}', 0),
 ('C18-get-specific-stops-at-first-queue', 'C18', 'src/queue.c', '			ctxt = _dispatch_queue_get_specific_inline(dq, key);\n			dq = dq->do_targetq;\n		} while (unlikely(ctxt == NULL && dq));\n	}\n	return ctxt;\n}\n\n#pragma mark -', '			ctxt = _dispatch_queue_get_specific_inline(dq, key);\n			dq = NULL;\n		} while (unlikely(ctxt == NULL && dq));\n	}\n	return ctxt;\n}\n\n#pragma mark -', 0),
 ('C19-cancelled-block-does-not-complete', 'C19', 'src/queue.c', '	if (likely(!(atomic_flags & DBF_CANCELED))) {\n		dbpd->dbpd_block();\n	}\n	if ((atomic_flags & DBF_PERFORM) == 0) {', '	if (likely(!(atomic_flags & DBF_CANCELED))) {\n		dbpd->dbpd_block();\n	}\n	if ((atomic_flags & (DBF_PERFORM | DBF_CANCELED)) == 0) {', 0),
 ('C02-sync-fastpath-ignores-queued-items', 'C02', 'src/inline_internal.h', '	if (unlikely(dq->dq_items_tail)) {\n		return false;\n	}\n\n	return os_atomic_rmw_loop2o(dq, dq_state, old_state, new_state, acquire, {\n		uint64_t role = old_state & DISPATCH_QUEUE_ROLE_MASK;\n		if (old_state != (init | role)) {', '	return os_atomic_rmw_loop2o(dq, dq_state, old_state, new_state, acquire, {\n		uint64_t role = old_state & DISPATCH_QUEUE_ROLE_MASK;\n		if ((old_state & ~(DISPATCH_QUEUE_ENQUEUED | DISPATCH_QUEUE_DIRTY | DISPATCH_QUEUE_MAX_QOS_MASK)) != (init | role)) {', 0),
 ('C02-main-queue-handoff-before-unbinding', 'C02', 'src/queue.c', '	_dispatch_queue_atomic_flags_clear(dq, DQF_THREAD_BOUND);\n	_dispatch_lane_barrier_complete(dq, 0, 0);\n', '	_dispatch_lane_barrier_complete(dq, 0, 0);\n	_dispatch_queue_atomic_flags_clear(dq, DQF_THREAD_BOUND);\n', 0),
]
def run(*a): return subprocess.run(a, capture_output=True, text=True)
def main():
    os.makedirs(OUT, exist_ok=True)
    assert run('git', '-C', R, 'status', '--porcelain').stdout.strip() == '', 'repo working tree not clean'
    for name, prop, f, old, new, nth in M:
        if old is None: continue
        p = os.path.join(R, f); s = open(p).read()
        if s.count(old) != 1:
            print('SKIP %s: anchor occurs %d times' % (name, s.count(old))); continue
        open(p, 'w').write(s.replace(old, new))
        d = run('git', '-C', R, 'diff').stdout
        open(os.path.join(OUT, name + '.patch'), 'w').write(d)
        run('git', '-C', R, 'checkout', '--', '.')
        print('ok', name)
    with open(os.path.join(OUT, 'INDEX.txt'), 'w') as fidx:
        for name, prop, f, old, new, nth in M:
            if old is not None: fidx.write('%s %s\n' % (name, prop))
if __name__ == '__main__': main()

#!/bin/bash
# usage: selftest/seeded.sh <property> [tier] [budget_s]
# Confirms a seeded change delivered in /tmp/seed-<property>/_seed (patch applies, existing suite passes with it,
# demonstration fails with it and passes without it), stores it under /verif/seeded/<property>/ and runs the
# property's check against it.
set -u
p=$1; prop=${p:0:3}; tier=${2:-quick}; budget=${3:-40}   # p may carry a round suffix (C02b): the property is its first three characters
wt=/tmp/seed-$p; sd=$wt/_seed
[ -f $sd/patch.diff ] || { echo "no patch in $sd"; exit 2; }
cd $wt || exit 2
git diff -- src dispatch private os > /tmp/seed-$p.cur.diff
echo "== worktree diff stat:"; git diff --stat -- src dispatch private os | tail -3
# 1. with the change: build, ctest, demo must fail
cmake --build _build > /tmp/seed-$p.build.log 2>&1 || { echo "BUILD FAILED with change"; tail -5 /tmp/seed-$p.build.log; exit 2; }
ctest --test-dir _build -j8 --timeout 900 > /tmp/seed-$p.ctest.log 2>&1; ct=$?
echo "== ctest with change: rc=$ct $(grep -E 'tests passed' /tmp/seed-$p.ctest.log)"
with_fail=0; for i in 1 2 3; do (cd $sd && timeout 600 bash ./run.sh > /tmp/seed-$p.demo.log 2>&1); [ $? -ne 0 ] && with_fail=$((with_fail+1)); done
echo "== demo with change: $with_fail/3 runs failed"
# 2. without the change
git apply -R $sd/patch.diff || { echo "cannot revert patch"; exit 2; }
cmake --build _build > /tmp/seed-$p.build.log 2>&1
wo_fail=0; for i in 1 2 3; do (cd $sd && timeout 600 bash ./run.sh > /tmp/seed-$p.demo0.log 2>&1); [ $? -ne 0 ] && wo_fail=$((wo_fail+1)); done
echo "== demo without change: $wo_fail/3 runs failed"
git apply $sd/patch.diff; cmake --build _build > /dev/null 2>&1
# 3. store
mkdir -p /verif/seeded/$p
cp $sd/patch.diff /verif/seeded/$p/patch.diff
for f in $sd/*; do case "$(basename $f)" in patch.diff|demo|*.o|*.log|FOREIGN*|foreign*) ;; *) [ -f "$f" ] && [ $(stat -c %s "$f") -lt 200000 ] && cp "$f" /verif/seeded/$p/ ;; esac; done
# 4. our check against it
out=$(/verif/selftest/mutant.sh $sd/patch.diff $prop $tier $budget 2>&1)
echo "$out"
echo "SUMMARY $p ctest_rc=$ct demo_with=$with_fail/3 demo_without=$wo_fail/3 check=$(echo "$out" | grep -o 'rc=[0-9]*' | tail -1)"

#!/usr/bin/env python3
"""Mutation campaign (selftest, not a registered check).

usage: selftest/campaign.py <n_per_property> [seed] [props...]

Generates single-line mutants inside the code regions the properties are anchored in (properties.jsonl ->
anchors.state/mechanism 'where' references, widened to a window of lines), with four operators a refactoring
could plausibly introduce:
  REL   one relational operator weakened/strengthened (<= <-> <, >= <-> >)
  DROP  an 'if (unlikely(...))' re-check switched off (branches that only crash on API misuse are skipped)
  STMT  a statement that is a single call removed (retain/release/wakeup/fence/store ...)
  FLAG  one '| FLAG' term removed from an or-expression
For every mutant, in ONE scratch worktree outside /repo and /verif (incremental builds):
  1. guard-off build + the pinned test suite; a mutant the suite kills is not counted (not "realistic");
  2. the quick check of the property the region is anchored to (plain + asan builds), 25 s budget.
Writes selftest/campaign/results.jsonl (one line per mutant: patch, verdicts) and prints a summary.
Nothing is ever applied to /repo itself."""
import json, os, random, re, subprocess, sys, time

V = '/verif'; R = '/repo'; WT = '/tmp/dsim-campaign'
OUT = os.path.join(V, 'selftest', 'campaign')

def sh(cmd, **kw):
    return subprocess.run(cmd, shell=True, capture_output=True, text=True, **kw)

def anchors():
    res = {}
    for l in open(os.path.join(V, 'properties.jsonl')):
        d = json.loads(l)
        if d['id'] == 'C20': continue
        locs = []
        for k in ('state', 'mechanism'):
            for e in d.get('anchors', {}).get(k, []):
                for m in re.finditer(r'(src/[\w/\.]+):(\d+)(?:-(\d+))?', e.get('where', '')):
                    a, b = int(m.group(2)), int(m.group(3) or 0)
                    if not b: b = a + 45      # a function start: take its body
                    locs.append((m.group(1), max(1, a - 3), min(b + 12, a + 140)))
        res[d['id']] = locs
    return res

SKIP_LINE = re.compile(r'^\s*(//|\*|/\*|#|_dispatch_(object_)?debug|_dispatch_op_debug|_dispatch_fd_debug|dispatch_assert|_dispatch_trace|_dispatch_introspection|DISPATCH_(INTERNAL|CLIENT)_CRASH|return\b|goto\b|break\b|continue\b|case\b|default\b)')
CALL_STMT = re.compile(r'^\s*(_dispatch_\w+|os_atomic_\w+|dx_\w+|dispatch_\w+|_os_object_\w+)\s*\(.*\);\s*$')

def candidates(path, lo, hi):
    lines = open(os.path.join(R, path)).read().split('\n')
    out = []
    for i in range(lo - 1, min(hi, len(lines))):
        ln = lines[i]
        if SKIP_LINE.match(ln) or not ln.strip(): continue
        if ln.rstrip().endswith('\\'): continue          # macro bodies: leave alone
        # REL
        for m in re.finditer(r'(?<![<>=!-])(<=|>=|<|>)(?![<>=])', ln):
            if '->' in ln[max(0, m.start() - 1):m.end() + 1]: continue
            if '<' in m.group(1) and re.search(r'#include|<\w+\.h>', ln): continue
            rep = {'<=': '<', '<': '<=', '>=': '>', '>': '>='}[m.group(1)]
            # template-ish / shift / arrows excluded by the look-arounds; require spaces around (C style of this code base)
            if ln[m.start() - 1:m.start()] != ' ' or ln[m.end():m.end() + 1] != ' ': continue
            out.append(('REL', i, ln[:m.start()] + rep + ln[m.end():]))
        # DROP
        m = re.search(r'\bif \((unlikely\()', ln)
        if m:
            body = '\n'.join(lines[i:i + 5])
            if not re.search(r'CRASH|dispatch_assert|DISPATCH_VERIF', body):
                out.append(('DROP', i, ln[:m.start(1)] + '0 && ' + ln[m.start(1):]))
        # STMT
        if CALL_STMT.match(ln) and not re.search(r'debug|trace|introspection|assert|DISPATCH_VERIF', ln):
            prev = lines[i - 1].strip() if i else ''
            if not (prev.startswith('if') or prev.startswith('else') or prev.startswith('for') or prev.startswith('while')) or prev.endswith('{'):
                out.append(('STMT', i, re.match(r'^\s*', ln).group(0) + ';'))
        # FLAG
        m = re.search(r' \| ?(DISPATCH_\w+|DC_FLAG_\w+|DSF_\w+|DQF_\w+|DBF_\w+|DU_\w+)', ln)
        if m and '||' not in ln[m.start():m.end() + 1]:
            out.append(('FLAG', i, ln[:m.start()] + ln[m.end():]))
    return out

def main():
    n_per = int(sys.argv[1]) if len(sys.argv) > 1 else 4
    seed = int(sys.argv[2]) if len(sys.argv) > 2 else 1
    only = sys.argv[3:]
    rng = random.Random(seed)
    os.makedirs(OUT, exist_ok=True)
    if not os.path.isdir(WT):
        assert sh('git -C %s worktree add -q --detach %s HEAD' % (R, WT)).returncode == 0
        r = sh('cd %s && cmake -G Ninja -B _build -S . -DCMAKE_C_COMPILER=clang-16 -DCMAKE_CXX_COMPILER=clang++-16 -DCMAKE_BUILD_TYPE=RelWithDebInfo -DCMAKE_C_FLAGS=-Wno-error -DBUILD_TESTING=ON > /dev/null && cmake --build _build > /dev/null' % WT)
        assert r.returncode == 0, r.stderr[-2000:]
    A = anchors()
    plan = []
    for prop, locs in A.items():
        if only and prop not in only: continue
        cands = []
        for (path, lo, hi) in locs:
            if not os.path.exists(os.path.join(R, path)): continue
            for c in candidates(path, lo, hi): cands.append((path,) + c)
        # de-duplicate by (path, line, text)
        cands = sorted(set(cands))
        rng.shuffle(cands)
        # at most one mutant per source line, spread over operators
        seen, picked = set(), []
        byop = {}
        for c in cands: byop.setdefault(c[1], []).append(c)
        ops = sorted(byop)
        while len(picked) < n_per and any(byop.values()):
            for o in ops:                      # rotate over the operators
                while byop[o]:
                    c = byop[o].pop()
                    if (c[0], c[2]) in seen: continue
                    seen.add((c[0], c[2])); picked.append(c); break
                if len(picked) == n_per: break
        for c in picked: plan.append((prop,) + c)
    print('%d mutants planned' % len(plan), flush=True)
    resf = open(os.path.join(OUT, 'results-seed%d.jsonl' % seed), 'a')
    for k, (prop, path, op, li, newline) in enumerate(plan):
        t0 = time.time()
        src = os.path.join(WT, path)
        orig = open(src).read(); lines = orig.split('\n'); old = lines[li]; lines[li] = newline
        open(src, 'w').write('\n'.join(lines))
        diff = sh('git -C %s diff' % WT).stdout
        rec = {'n': k, 'property': prop, 'file': path, 'line': li + 1, 'op': op, 'old': old.strip(), 'new': newline.strip(), 'patch': diff}
        try:
            b = sh('cd %s && cmake --build _build 2>&1 | tail -5' % WT)
            if 'error' in b.stdout or b.returncode != 0 and 'FAILED' in b.stdout:
                rec['verdict'] = 'does-not-compile'
            else:
                t = sh('cd %s && ctest --test-dir _build -j8 --timeout 300 2>&1 | tail -8' % WT)
                if '100% tests passed' not in t.stdout:
                    rec['verdict'] = 'killed-by-existing-suite'; rec['suite'] = t.stdout[-300:]
                else:
                    env = dict(os.environ, VERIF_REPO=WT, VERIF_BUILD=WT + '/_vbuild', VERIF_BUDGET_S='25', VERIF_SKIP_MODES='full', VERIF_WORKERS=os.environ.get('VERIF_WORKERS', '10'))
                    # private snapshot of the checks: evidence and replays of the real tree stay untouched
                    sh('mkdir -p %s/_verif && rsync -a --delete --exclude build --exclude .git --exclude replays --exclude seeded --exclude selftest/campaign %s/ %s/_verif/' % (WT, V, WT))
                    sh("sed -i 's#/verif/build#%s/_vbuild#g' %s/_verif/Makefile" % (WT, WT))
                    c = subprocess.run([WT + '/_verif/check', prop, 'quick'], env=env, capture_output=True, text=True)
                    rec['check_rc'] = c.returncode
                    rec['classes'] = re.findall(r'failure class "([^"]+)": (\d+) run', c.stdout)[:6]
                    rec['verdict'] = 'caught' if c.returncode == 1 else 'survived' if c.returncode == 0 else 'check-exit-%d' % c.returncode
                    if c.returncode == 2 and 'build stopped' in (c.stdout + c.stderr): rec['verdict'] = 'does-not-compile'   # warnings are errors in the /verif build
                    if c.returncode not in (0, 1): rec['tail'] = (c.stdout + c.stderr)[-600:]
        finally:
            open(src, 'w').write(orig)
        rec['wall_s'] = round(time.time() - t0, 1)
        resf.write(json.dumps(rec) + '\n'); resf.flush()
        print('%3d/%d %s %-4s %s:%d  %-26s %s  (%.0fs)' % (k + 1, len(plan), prop, op, path, li + 1, rec['verdict'], rec.get('classes', '')[:2] if rec.get('classes') else '', rec['wall_s']), flush=True)
    print('done')

if __name__ == '__main__':
    main()

#!/bin/bash
# usage: selftest/run_mutants.sh [budget_s]   -- runs the quick check of its property against every selftest/mutants/*.patch
b=${1:-30}
while read name prop; do
	out=$(/verif/selftest/mutant.sh /verif/selftest/mutants/$name.patch $prop quick $b 2>&1)
	rc=$(echo "$out" | grep -o 'rc=[0-9]*' | tail -1)
	cls=$(echo "$out" | grep -o 'failure class "[^"]*": [0-9]* run' | head -3 | tr '\n' ';')
	runs=$(echo "$out" | grep -o '[0-9]* runs (' | head -1)
	echo "$name $prop $rc $runs $cls"
done < /verif/selftest/mutants/INDEX.txt

#!/bin/bash
# usage: selftest/run_seeds.sh C01 C02 ...   -- confirm and run the checks against several seeded changes, one after the other
for p in "$@"; do /verif/selftest/seeded.sh "$p" quick 40 > /tmp/seeded-$p.log 2>&1; done

#!/bin/bash
# usage: selftest/determinism.sh [runs_per_property] [mode]
# Determinism study: every property, both fault configurations; the same seeds are executed (a) by one process in
# index order and (b) split over 7 concurrent processes with stride 7 while 8 further processes keep the
# machine busy with unrelated seeds; the per-seed records (verdict, history hash, trace hash, schedule signature)
# of the two executions must be identical. Prints one line per property and exits 1 on any difference.
n=${1:-700}; mode=${2:-plain}
B=/verif/build/$mode/dsim
d=$(mktemp -d /tmp/dsim-det-XXXXXX); trap "rm -rf $d" EXIT
bad=0
for p in $($B list); do
	for cfg in nofault,quick faulty,quick; do
		$B batch $p $cfg 77 0 1 $n 0 $d/a.out > /dev/null 2>&1
		# background load: unrelated seeds
		for k in 1 2 3 4 5 6 7 8; do $B batch $p $cfg 991$k 0 1 $((n / 2)) 0 $d/load$k.out > /dev/null 2>&1 & done
		per=$(( (n + 6) / 7 ))
		for k in 0 1 2 3 4 5 6; do $B batch $p $cfg 77 $k 7 $per 0 $d/b$k.out > /dev/null 2>&1 & done
		wait
		grep -h '^R ' $d/a.out | awk '{print $2, $3, $4, $5, $6, $7, $8}' | sort -n > $d/a.txt
		cat $d/b?.out | grep -h '^R ' | awk -v n=$n '$2 < n {print $2, $3, $4, $5, $6, $7, $8}' | sort -n > $d/b.txt
		na=$(wc -l < $d/a.txt); nb=$(wc -l < $d/b.txt)
		if cmp -s $d/a.txt $d/b.txt; then echo "$p $cfg: $na runs twice, identical"; else
			echo "$p $cfg: DIFFERENT ($na vs $nb records)"; diff $d/a.txt $d/b.txt | head -6; bad=1; fi
	done
done
exit $bad

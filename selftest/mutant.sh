#!/bin/bash
# usage: selftest/mutant.sh <patch-file> <property> [tier] [budget_s]
# Applies a seeded defect to a scratch worktree of /repo (outside /repo and /verif), runs the property's check
# against it from a private snapshot of /verif (so that neither evidence nor replays of the real tree are touched
# and concurrent edits of /verif cannot disturb the run), prints the verdict, removes everything again.
set -u
patch=$(readlink -f "$1"); prop=$2; tier=${3:-quick}; budget=${4:-40}
wt=$(mktemp -d /tmp/dsim-mut-XXXXXX)
git -C /repo worktree add -q --detach "$wt" HEAD || exit 2
cleanup() { git -C /repo worktree remove --force "$wt" 2>/dev/null; rm -rf "$wt"; }
trap cleanup EXIT
if ! git -C "$wt" apply "$patch"; then echo "MUTANT $(basename $patch): patch does not apply"; exit 2; fi
mkdir -p "$wt/_verif"
rsync -a --exclude build --exclude .git --exclude replays --exclude seeded /verif/ "$wt/_verif/"
sed -i "s#/verif/build#$wt/_vbuild#g" "$wt/_verif/Makefile"
out=$(VERIF_REPO="$wt" VERIF_BUILD="$wt/_vbuild" VERIF_BUDGET_S=$budget "$wt/_verif/check" "$prop" "$tier" 2>&1); rc=$?
echo "$out" | grep -E "failure class|VIOLATION|KNOWN-FINDING|BUILD FAILED|error:|runs \(|WATCHDOG|differ|not reproduce|exit 2|GATE" | cut -c1-400 | head -12
if [ $rc -eq 1 ]; then
	r=$(echo "$out" | grep -o "replay=[^ ]*" | head -1 | cut -d= -f2)
	[ -n "$r" ] && [ -f "$r" ] && { echo "--- minimised replay of the first failure class:"; grep -v "^#  " "$r" | head -25; }
fi
echo "MUTANT $(basename $patch) property=$prop rc=$rc"
exit 0

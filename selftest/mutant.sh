#!/bin/bash
# usage: selftest/mutant.sh <patch-file> <property> [tier] [budget_s]
# Applies a seeded defect to a scratch worktree of /repo (outside /repo and /verif), runs the
# property's check against it, prints the verdict, and removes the worktree and its build.
set -u
patch=$(readlink -f "$1"); prop=$2; tier=${3:-quick}; budget=${4:-40}
wt=$(mktemp -d /tmp/dsim-mut-XXXXXX)
git -C /repo worktree add -q --detach "$wt" HEAD || exit 2
cleanup() { git -C /repo worktree remove --force "$wt" 2>/dev/null; rm -rf "$wt"; }
trap cleanup EXIT
if ! git -C "$wt" apply "$patch"; then echo "MUTANT $(basename $patch): patch does not apply"; exit 2; fi
out=$(VERIF_REPO="$wt" VERIF_BUILD="$wt/_vbuild" VERIF_BUDGET_S=$budget /verif/check "$prop" "$tier" 2>&1); rc=$?
echo "$out" | grep -E "failure class|VIOLATION|BUILD FAILED|error:|runs \(" | cut -c1-400 | head -12
echo "MUTANT $(basename $patch) property=$prop rc=$rc"
# the check wrote evidence and replays for the mutant: discard them
git -C /verif checkout -q -- evidence 2>/dev/null
exit 0

// custom "tsan runtime": every instrumented memory access / atomic is a scheduling point
#define _GNU_SOURCE
#include <stdint.h>
#include <stddef.h>
extern void _dispatch_verif_point(const volatile void *addr, int kind);
extern void sim_mem_access(const volatile void *addr);
void __tsan_init(void) {}
void __tsan_func_entry(void *pc) { (void)pc; }
void __tsan_func_exit(void) {}
#define RW(n) void __tsan_read##n(void *a) { sim_mem_access(a); } void __tsan_write##n(void *a) { sim_mem_access(a); } \
	void __tsan_unaligned_read##n(void *a) { sim_mem_access(a); } void __tsan_unaligned_write##n(void *a) { sim_mem_access(a); }
RW(1) RW(2) RW(4) RW(8) RW(16)
void __tsan_vptr_update(void **a, void *v) { (void)v; sim_mem_access(a); }
void __tsan_vptr_read(void **a) { sim_mem_access(a); }
void __tsan_read_range(void *a, unsigned long n) { (void)n; sim_mem_access(a); }
void __tsan_write_range(void *a, unsigned long n) { (void)n; sim_mem_access(a); }
void __tsan_atomic_thread_fence(int mo) { __atomic_thread_fence(mo); }
void __tsan_atomic_signal_fence(int mo) { __atomic_signal_fence(mo); }
#define PRE(p) _dispatch_verif_point(p, 0)
#define POST(p) _dispatch_verif_point(p, 1)
#define ATOM(n, T) \
T __tsan_atomic##n##_load(const volatile T *p, int mo) { PRE(p); T v = __atomic_load_n(p, mo); POST(p); return v; } \
void __tsan_atomic##n##_store(volatile T *p, T v, int mo) { PRE(p); __atomic_store_n(p, v, mo); POST(p); } \
T __tsan_atomic##n##_exchange(volatile T *p, T v, int mo) { PRE(p); T r = __atomic_exchange_n(p, v, mo); POST(p); return r; } \
T __tsan_atomic##n##_fetch_add(volatile T *p, T v, int mo) { PRE(p); T r = __atomic_fetch_add(p, v, mo); POST(p); return r; } \
T __tsan_atomic##n##_fetch_sub(volatile T *p, T v, int mo) { PRE(p); T r = __atomic_fetch_sub(p, v, mo); POST(p); return r; } \
T __tsan_atomic##n##_fetch_and(volatile T *p, T v, int mo) { PRE(p); T r = __atomic_fetch_and(p, v, mo); POST(p); return r; } \
T __tsan_atomic##n##_fetch_or(volatile T *p, T v, int mo) { PRE(p); T r = __atomic_fetch_or(p, v, mo); POST(p); return r; } \
T __tsan_atomic##n##_fetch_xor(volatile T *p, T v, int mo) { PRE(p); T r = __atomic_fetch_xor(p, v, mo); POST(p); return r; } \
T __tsan_atomic##n##_fetch_nand(volatile T *p, T v, int mo) { PRE(p); T r = __atomic_fetch_nand(p, v, mo); POST(p); return r; } \
T __tsan_atomic##n##_compare_exchange_val(volatile T *p, T e, T d, int mo, int fmo) { PRE(p); __atomic_compare_exchange_n(p, &e, d, 0, mo, fmo); POST(p); return e; } \
int __tsan_atomic##n##_compare_exchange_strong(volatile T *p, T *e, T d, int mo, int fmo) { PRE(p); int r = __atomic_compare_exchange_n(p, e, d, 0, mo, fmo); POST(p); return r; } \
int __tsan_atomic##n##_compare_exchange_weak(volatile T *p, T *e, T d, int mo, int fmo) { PRE(p); int r = __atomic_compare_exchange_n(p, e, d, 0, mo, fmo); POST(p); return r; }
ATOM(8, uint8_t) ATOM(16, uint16_t) ATOM(32, uint32_t) ATOM(64, uint64_t)
void __tsan_ignore_thread_begin(void) {}
void __tsan_ignore_thread_end(void) {}
void __tsan_acquire(void *a) { (void)a; }
void __tsan_release(void *a) { (void)a; }

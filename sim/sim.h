// dsim: deterministic scheduler for real threads (baton passing) + libc seams.
// See /verif/DESIGN.md section 2.
#pragma once
#include <stdint.h>
#include <stddef.h>
#include <stdbool.h>
#include <sys/types.h>

typedef struct sim_thread sim_thread;

/* ---- choice kinds (tape keys) ---- */
enum {
	K_PREEMPT, K_PICK, K_STALL, K_WEAKCAS, K_UNUSUAL, K_WAKE, K_FUTEXSPUR,
	K_SEMEINTR, K_EPEINTR, K_IOFAULT, K_IOARG, K_ALLOC, K_THRFAIL, K_TIMEFAULT,
	K_SIGMISS, K_HARNESS, K_NKINDS
};
extern const char *const sim_kind_names[K_NKINDS];

enum { STRAT_WALK, STRAT_PCT, STRAT_STALL, STRAT_FAIR, STRAT_N };
extern const char *const sim_strat_names[STRAT_N];

#define SIM_MAX_STALLS 4
#define SIM_NPROBES 48
#define SIM_NUNUSUAL 8

/* I/O fault kinds (bit numbers in iofault_mask; also index of io fault counters) */
enum { IOF_SHORT = 1, IOF_EINTR, IOF_EAGAIN, IOF_EIO, IOF_ENOSPC, IOF_EPIPE, IOF_EOF, IOF_N };

typedef struct sim_knobs {
	int strategy;
	int preempt_den;      // walk: pre-empt with probability 1/den at a scheduling point
	int watch_den;        // same, when the atomic's address lies in a watched range
	int mem_den;          // full mode: plain memory accesses
	int pct_d;            // pct: number of priority change points
	uint64_t pct_span;    // pct: change points are drawn from the first pct_span steps
	int stall_k;          // stall: number of injected stalls
	int stall_tid[SIM_MAX_STALLS];
	uint64_t stall_ord[SIM_MAX_STALLS];  // hook ordinal of that thread
	int stall_code[SIM_MAX_STALLS];      // index into the duration table
	uint64_t tick_ns;     // simulated time per scheduling point
	int ncpu;
	int weakcas_den;      // 0 = off
	unsigned unusual_mask; int unusual_den;
	int futexspur_den, semeintr_den, epeintr_den;
	int sigmiss_den;      // signalfd read misfires with EAGAIN (signal taken by the legacy path, raised again)
	int clkread_ns;       // every clock read of the code under test moves the simulated clocks on by this much (two consecutive reads differ)
	int iofault_den; unsigned iofault_mask;
	int alloc_den, thrfail_den;
	int timefault_den; unsigned timefault_mask; // bit0 warp, bit1 wall jump fwd, bit2 wall jump back
	int wake_random;      // randomise futex/sem wake order
	uint64_t step_cap;    // scheduling points per run
	uint64_t start_up_ns, boot_off_ns, wall_off_ns;
} sim_knobs;

extern sim_knobs sim_k;

typedef struct sim_stats {
	uint64_t steps, switches, idle_jumps, memacc, hooks;
	uint64_t sim_ns;             // simulated time covered
	int nthreads;
	uint64_t sched_sig;          // hash of context switches (from, hook ordinal, to)
	uint64_t trace_hash;         // sched_sig plus times
	uint32_t fired[K_NKINDS];    // non-zero decisions per kind
	uint32_t iofault[IOF_N];
	uint32_t probe[SIM_NPROBES];
	uint32_t unusual[SIM_NUNUSUAL];
	uint32_t warps, walljumps;
	uint32_t watched_preempts;   // pre-emptions taken at watched addresses
} sim_stats;
extern sim_stats sim_st;

/* ---- set-up ---- */
void sim_seed(uint64_t sched_seed);
// tape replay: decisions come from the tape (0 where it has no entry)
void sim_tape_load(const char *text);
// dump recorded tape (non-zero decisions) as text lines "tid kind ord val"
size_t sim_tape_dump(char *buf, size_t cap);
int sim_tape_count(void);
// turn the calling (main) thread into sim thread 0 and start simulating
void sim_begin(void);
void sim_finish_stats(void);

/* ---- threads ---- */
sim_thread *sim_spawn(void *(*fn)(void *), void *arg, const char *name);
int sim_join(sim_thread *t, uint64_t timeout_ns); // 0 joined, 1 timed out
int sim_thread_done(sim_thread *t);
int sim_self_id(void);
int sim_nthreads(void);
// human-readable thread states, for stuck witnesses
size_t sim_describe_threads(char *buf, size_t cap);

/* ---- time ---- */
uint64_t sim_now(void);           // simulated uptime ns
uint64_t sim_clock(int clockid);  // CLOCK_MONOTONIC / CLOCK_BOOTTIME / CLOCK_REALTIME
uint64_t sim_clock_hw(int clockid); // high-water mark of that clock
void sim_sleep_ns(uint64_t ns);
void sim_wall_jump(int64_t delta);
void sim_set_clocks(uint64_t up, uint64_t boot_off, uint64_t wall_off);

/* ---- harness-level synchronisation (independent of the code under test) ---- */
typedef struct { int set; } sim_event;
void sim_event_signal(sim_event *e);
int sim_event_wait(sim_event *e, uint64_t timeout_ns); // 0 ok, 1 timeout
// a scheduling point in harness code (between API calls)
void sim_point(void);
void sim_yield(void);

/* ---- phases ---- */
// end of fault phase: no more faults or random pre-emptions, fair scheduling
void sim_set_fair(void);
void sim_arm_stall(uint32_t rel_hooks, int duration_code);   // workload-placed stall of the calling thread
int sim_is_fair(void);

/* ---- watch ranges ---- */
void sim_watch(const void *p, size_t len);

/* ---- harness random choice recorded on the tape (run-time decisions) ---- */
uint32_t sim_choose(uint32_t n);

/* ---- I/O layer for fds under test ---- */
void sim_io_watch(int fd, int is_stream);    // enable fault injection + logging for fd
void sim_io_peer_closed(int fd);             // the harness closed the other end
size_t sim_io_log(int fd, unsigned char **p);// bytes handed to / accepted from the library
// per-call log for fds under test
typedef struct { int fd; int is_write; uint64_t seq; ssize_t ret; int err; off_t off; int has_off; } sim_io_call;
extern sim_io_call *sim_io_calls; extern int sim_io_ncalls;
// harness-side I/O: performs the real call, blocks in the simulator when not ready
ssize_t sim_io_read(int fd, void *b, size_t n);
ssize_t sim_io_write(int fd, const void *b, size_t n);
int sim_io_close(int fd);
int sim_io_wait_readable(int fd, uint64_t timeout_ns);
void sim_mark_io(void);
// epoll registrations seen at the seam: returns events mask currently registered for fd (0 if none)
uint32_t sim_epoll_registered(int fd);
/* signals: the library's signalfd() is a stand-in owned by the simulator; a simulated signal is raised with
 * sim_signal_raise(); sim_signalfd_of() returns the stand-in descriptor for signo or -1 when none is open */
void sim_signal_raise(int signo);
int sim_signalfd_of(int signo);
extern int sim_epoll_ctl_ebadf;
extern uint64_t (*sim_seq_cb)(void);  // harness global event counter for I/O call stamps

/* ---- termination callbacks (set by harness) ---- */
// called when nothing is runnable and no timed event exists
extern void (*sim_on_deadlock)(void);
// called when the step cap is exceeded
extern void (*sim_on_stepcap)(void);
extern void (*sim_on_capacity)(const char *what);   // the run exceeds what the simulator can hold: inconclusive, not a verdict

/* hooks called from libdispatch (DISPATCH_VERIF) and from tsanrt.c */
void _dispatch_verif_point(const volatile void *addr, int post);
int _dispatch_verif_weak_cas_fails(const volatile void *addr);
void _dispatch_verif_pause(void);
void _dispatch_verif_probe(int id);
int _dispatch_verif_unusual(int id);
void sim_mem_access(const volatile void *addr);

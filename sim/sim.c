// dsim: deterministic scheduler for real threads (baton passing) + libc seams.
// Exactly one sim thread runs at any instant; simulator state is only touched by the
// baton holder, so it needs no locks. See /verif/DESIGN.md section 2.
#define _GNU_SOURCE
#include "sim.h"
#include <pthread.h>
#include <semaphore.h>
#include <linux/futex.h>
#include <sys/syscall.h>
#include <sys/epoll.h>
#include <sys/eventfd.h>
#include <sys/timerfd.h>
#include <sys/signalfd.h>
#include <sys/time.h>
#include <poll.h>
#include <errno.h>
#include <stdarg.h>
#include <stdio.h>
#include <stdlib.h>
#include <string.h>
#include <unistd.h>
#include <fcntl.h>
#include <time.h>
#include <limits.h>
#include <sched.h>
#include <signal.h>

const char *const sim_kind_names[K_NKINDS] = { "preempt", "pick", "stall", "weakcas",
	"unusual", "wake", "futexspur", "semeintr", "epeintr", "iofault", "ioarg", "alloc",
	"thrfail", "timefault", "sigmiss", "harness" };
const char *const sim_strat_names[STRAT_N] = { "walk", "pct", "stall", "fair" };

enum { ST_RUNNABLE, ST_FUTEX, ST_SEM, ST_EPOLL, ST_POLL, ST_SLEEP, ST_JOIN, ST_EVENT,
	ST_FOREVER, ST_DONE };
static const char *st_names[] = { "RUN", "FUTEX", "SEM", "EPOLL", "POLL", "SLEEP", "JOIN",
	"EVENT", "FOREVER", "DONE" };

struct sim_thread {
	int id, vtid, state;
	uint32_t go;
	void *wait_obj;
	int pi_waiter;
	int wfd;              // epoll fd / polled fd
	uint64_t wake_at;     // sim uptime ns, UINT64_MAX = none
	int wake_reason;      // 0 = woken, 1 = timeout
	void *(*fn)(void *);
	void *arg;
	pthread_t pt;
	const char *name;
	uint64_t nhooks, spin_hooks;
	int spin, slice;
	uint64_t arm_ord; int arm_code;
	uint64_t yield_hooks; int yields;   // harness-placed stall: at this hook ordinal of this thread
	uint64_t last_run;
	uintptr_t stk_lo, stk_hi;
	int prio;
	int is_lib;
};

#define MAXT 640
static sim_thread *threads[MAXT];
static sim_thread thread_store[MAXT];
static int nthreads;
static __thread sim_thread *self;
static int active, fair;
int sim_debug;

sim_knobs sim_k;
sim_stats sim_st;
void (*sim_on_deadlock)(void);
void (*sim_on_stepcap)(void);
void (*sim_on_capacity)(const char *what);
uint64_t (*sim_seq_cb)(void);

static uint64_t now_ns, wall_off, boot_off, start_ns;
static uint64_t hw_up, hw_boot, hw_wall;
static uint64_t next_evt;
static uint64_t rng_s[2];
static int io_dirty = 1;
static uint64_t lru_clock;

#define MAXFD 1024
#define MAXTFD 8
static struct { int fd, used, armed; int clock; uint64_t target; } tfd[MAXTFD];

#define MAXKEYS 64
static struct { pthread_key_t k; void (*d)(void *); } keys[MAXKEYS];
static int nkeys;

static const uint64_t stall_dur[] = { 0, 50000, 200000, 1000000, 5000000, 20000000,
	50000000, 500000000, 2000000000ull };
#define NSTALLDUR ((int)(sizeof(stall_dur) / sizeof(stall_dur[0])))

/* ---------- real functions ---------- */
int __real_pthread_create(pthread_t *, const pthread_attr_t *, void *(*)(void *), void *);
long __real_syscall(long n, ...);
int __real_clock_gettime(clockid_t, struct timespec *);
int __real_gettimeofday(struct timeval *, void *);
int __real_epoll_wait(int, struct epoll_event *, int, int);
int __real_epoll_ctl(int, int, int, struct epoll_event *);
int __real_eventfd_write(int, eventfd_t);
int __real_eventfd_read(int, eventfd_t *);
int __real_pthread_key_create(pthread_key_t *, void (*)(void *));
int __real_open(const char *, int, ...);
ssize_t __real_read(int, void *, size_t);
ssize_t __real_write(int, const void *, size_t);
ssize_t __real_pread(int, void *, size_t, off_t);
ssize_t __real_pwrite(int, const void *, size_t, off_t);
int __real_close(int);
int __real_usleep(useconds_t);
unsigned __real_sleep(unsigned);
int __real_sched_yield(void);
int __real_timerfd_create(int, int);
void *__real_calloc(size_t, size_t);
int __real_posix_memalign(void **, size_t, size_t);

/* ---------- rng ---------- */
static uint64_t splitmix(uint64_t *x) {
	uint64_t z = (*x += 0x9e3779b97f4a7c15ull);
	z = (z ^ (z >> 30)) * 0xbf58476d1ce4e5b9ull;
	z = (z ^ (z >> 27)) * 0x94d049bb133111ebull;
	return z ^ (z >> 31);
}
static uint64_t rnd(void) {
	uint64_t s1 = rng_s[0], s0 = rng_s[1];
	uint64_t r = s0 + s1;
	rng_s[0] = s0; s1 ^= s1 << 23;
	rng_s[1] = s1 ^ s0 ^ (s1 >> 18) ^ (s0 >> 5);
	return r;
}
static inline void hmix(uint64_t *h, uint64_t v) { *h = (*h ^ v) * 1099511628211ull; }

static void sim_fatal(const char *fmt, ...) {
	va_list ap; va_start(ap, fmt);
	fprintf(stderr, "SIM-FATAL: "); vfprintf(stderr, fmt, ap); fprintf(stderr, "\n");
	va_end(ap);
	_exit(99);
}

/* ---------- choice tape: sparse, keyed by (thread, kind, per-thread ordinal) ---------- */
struct tent { int32_t tid, kind; uint32_t ord, val; };
#define MAXTAPE 262144
static struct tent *tape_out; static int tape_out_n, tape_out_lost;
#define TAPE_HASH 16384
static struct tent tape_in[TAPE_HASH]; static uint8_t tape_in_used[TAPE_HASH];
static int tape_in_n, tape_replay, tape_force;
static uint32_t ordc[MAXT + 1][K_NKINDS];
#define GLOBAL_TID MAXT   /* kinds whose ordinal is global rather than per thread */

static inline uint32_t tkey(int tid, int kind, uint32_t ord) {
	uint64_t h = ((uint64_t)(uint32_t)tid << 40) ^ ((uint64_t)kind << 32) ^ ord;
	h *= 0x9e3779b97f4a7c15ull;
	return (uint32_t)(h >> 40) & (TAPE_HASH - 1);
}
static int tape_lookup(int tid, int kind, uint32_t ord, uint32_t *val) {
	uint32_t i = tkey(tid, kind, ord);
	while (tape_in_used[i]) {
		if (tape_in[i].tid == tid && tape_in[i].kind == kind && tape_in[i].ord == ord) {
			*val = tape_in[i].val; return 1;
		}
		i = (i + 1) & (TAPE_HASH - 1);
	}
	return 0;
}
static void tape_insert(int tid, int kind, uint32_t ord, uint32_t val) {
	if (tape_in_n >= TAPE_HASH / 2) sim_fatal("tape too long");
	uint32_t i = tkey(tid, kind, ord);
	while (tape_in_used[i]) i = (i + 1) & (TAPE_HASH - 1);
	tape_in_used[i] = 1; tape_in[i] = (struct tent){ tid, kind, ord, val }; tape_in_n++;
}
// text lines: "<tid> <kindname> <ord> <val>"; a leading "force" line makes the entries an
// overlay on top of the seeded PRNG instead of a full replay
void sim_tape_load(const char *text) {
	tape_replay = 1;
	const char *p = text;
	while (*p) {
		char kn[32]; int tid; unsigned ord, val; int n = 0;
		if (!strncmp(p, "force", 5)) { tape_replay = 0; tape_force = 1; }
		else if (sscanf(p, "%d %31s %u %u%n", &tid, kn, &ord, &val, &n) == 4) {
			int k = -1;
			for (int i = 0; i < K_NKINDS; i++) if (!strcmp(kn, sim_kind_names[i])) k = i;
			if (k < 0) sim_fatal("bad tape kind %s", kn);
			if (tid < 0) tid = GLOBAL_TID;
			tape_insert(tid, k, ord, val);
		}
		while (*p && *p != '\n') p++;
		if (*p == '\n') p++;
	}
}
size_t sim_tape_dump(char *buf, size_t cap) {
	size_t o = 0;
	for (int i = 0; i < tape_out_n && o + 64 < cap; i++)
		o += (size_t)snprintf(buf + o, cap - o, "%d %s %u %u\n",
			tape_out[i].tid == GLOBAL_TID ? -1 : tape_out[i].tid,
			sim_kind_names[tape_out[i].kind], tape_out[i].ord, tape_out[i].val);
	return o;
}
int sim_tape_count(void) { return tape_out_n + tape_out_lost; }

// One decision. `computed` is what the strategy / PRNG wants (0 = the boring choice);
// under tape replay the tape decides instead. Every non-zero decision is recorded.
static uint32_t decide_at(int tid, int kind, uint32_t ord, uint32_t n, uint32_t computed) {
	uint32_t v = computed, tv;
	if (tape_replay) v = tape_lookup(tid, kind, ord, &tv) ? tv : 0;
	else if (tape_force && tape_lookup(tid, kind, ord, &tv)) v = tv;
	else if (fair) v = 0;
	if (n && v >= n) v %= n;
	if (v) {
		sim_st.fired[kind]++;
		if (tape_out_n < MAXTAPE) tape_out[tape_out_n++] = (struct tent){ tid, kind, ord, v };
		else tape_out_lost++;
	}
	return v;
}
static uint32_t decide_t(int tid, int kind, uint32_t n, uint32_t computed) {
	return decide_at(tid, kind, ordc[tid][kind]++, n, computed);
}
static inline uint32_t decide(int kind, uint32_t n, uint32_t computed) {
	return decide_t(self ? self->id : 0, kind, n, computed);
}
// decisions taken at a hook are keyed by the thread's own hook ordinal
static inline uint32_t decide_hook(sim_thread *me, int kind, uint32_t n, uint32_t computed) {
	return decide_at(me->id, kind, (uint32_t)me->nhooks, n, computed);
}
// bernoulli(1/den) -> 1, else 0 ; den == 0 -> never
static inline uint32_t draw_bool(int den) {
	if (den <= 0 || tape_replay || fair) return 0;
	return (rnd() % (uint64_t)den) == 0;
}
static inline uint32_t draw_uniform(uint32_t n) {
	if (n <= 1 || tape_replay || fair) return 0;
	return (uint32_t)(rnd() % n);
}
uint32_t sim_choose(uint32_t n) {
	if (n <= 1) return 0;
	return decide(K_HARNESS, n, draw_uniform(n));
}

/* ---------- baton ---------- */
static void park(sim_thread *me) {
	while (__atomic_load_n(&me->go, __ATOMIC_ACQUIRE) == 0)
		__real_syscall(SYS_futex, &me->go, FUTEX_WAIT_PRIVATE, 0, NULL, NULL, 0);
}
static void release(sim_thread *t) {
	__atomic_store_n(&t->go, 1, __ATOMIC_RELEASE);
	__real_syscall(SYS_futex, &t->go, FUTEX_WAKE_PRIVATE, 1, NULL, NULL, 0);
}

size_t sim_describe_threads(char *buf, size_t cap) {
	size_t o = 0;
	for (int i = 0; i < nthreads && o + 96 < cap; i++) {
		sim_thread *t = threads[i];
		if (t->state == ST_DONE) continue;
		o += (size_t)snprintf(buf + o, cap - o, "t%d(%s):%s", t->id, t->name, st_names[t->state]);
		if (t->wake_at != UINT64_MAX && o + 32 < cap)
			o += (size_t)snprintf(buf + o, cap - o, "@+%.3fms", (double)(t->wake_at - now_ns) / 1e6);
		buf[o++] = ' ';
	}
	if (o) o--;
	if (cap) buf[o] = 0;
	return o;
}

/* ---------- clocks ---------- */
static inline uint64_t clk_now(int c) {
	return (c == CLOCK_REALTIME || c == CLOCK_REALTIME_COARSE) ? now_ns + wall_off
		: c == CLOCK_BOOTTIME ? now_ns + boot_off : now_ns;
}
static inline void hw_update(void) {
	if (now_ns > hw_up) hw_up = now_ns;
	if (now_ns + boot_off > hw_boot) hw_boot = now_ns + boot_off;
	if (now_ns + wall_off > hw_wall) hw_wall = now_ns + wall_off;
}
static inline void advance_to(uint64_t t) { if (t > now_ns) { now_ns = t; hw_update(); } }
uint64_t sim_clock(int c) { return clk_now(c); }
uint64_t sim_clock_hw(int c) {
	hw_update();
	return (c == CLOCK_REALTIME) ? hw_wall : (c == CLOCK_BOOTTIME) ? hw_boot : hw_up;
}
uint64_t sim_now(void) { return now_ns; }
void sim_wall_jump(int64_t d) {
	hw_update();
	wall_off = (uint64_t)((int64_t)wall_off + d); io_dirty = 1; next_evt = 0;
	sim_st.walljumps++; hw_update();
}
void sim_set_clocks(uint64_t up, uint64_t b, uint64_t w) {
	now_ns = up; boot_off = b; wall_off = w; next_evt = 0; hw_up = hw_boot = hw_wall = 0; hw_update();
}

static uint64_t compute_next_event(void) {
	uint64_t m = UINT64_MAX;
	for (int i = 0; i < nthreads; i++) {
		sim_thread *t = threads[i];
		if (t->state != ST_RUNNABLE && t->state != ST_DONE && t->wake_at < m) m = t->wake_at;
	}
	for (int i = 0; i < MAXTFD; i++)
		if (tfd[i].used && tfd[i].armed) {
			uint64_t off = clk_now(tfd[i].clock) - now_ns;
			uint64_t t = tfd[i].target > off ? tfd[i].target - off : 0;
			if (t < m) m = t;
		}
	return m;
}
static void fire_due(void) {
	for (int i = 0; i < nthreads; i++) {
		sim_thread *t = threads[i];
		if (t->state != ST_RUNNABLE && t->state != ST_DONE && t->wake_at <= now_ns) {
			t->wake_reason = 1; t->wake_at = UINT64_MAX; t->state = ST_RUNNABLE;
		}
	}
	for (int i = 0; i < MAXTFD; i++) {
		if (tfd[i].used && tfd[i].armed && tfd[i].target <= clk_now(tfd[i].clock)) {
			tfd[i].armed = 0;
			uint64_t one = 1;
			if (__real_write(tfd[i].fd, &one, 8) != 8) sim_fatal("timerfd stand-in write");
			io_dirty = 1;
		}
	}
	next_evt = compute_next_event();
}
static inline void note_event(uint64_t t) { if (t < next_evt) next_evt = t; }

static void poll_waiters(void) {
	if (!io_dirty) return;
	io_dirty = 0;
	for (int i = 0; i < nthreads; i++) {
		sim_thread *t = threads[i];
		if (t->state == ST_EPOLL || t->state == ST_POLL) {
			struct pollfd p = { .fd = t->wfd, .events = POLLIN };
			if (poll(&p, 1, 0) > 0) { t->state = ST_RUNNABLE; t->wake_reason = 0; t->wake_at = UINT64_MAX; }
		}
	}
}

/* ---------- scheduler ---------- */
// mode: 0 = pre-emption decided (self stays runnable, pick another if any),
//       1 = yield (prefer others), 2 = self blocked, 3 = self exiting (do not park)
static void reschedule(int mode) {
	sim_thread *me = self;
	for (;;) {
		if (now_ns >= next_evt) fire_due();
		poll_waiters();
		sim_thread *run[MAXT]; int n = 0;
		for (int i = 0; i < nthreads; i++) {
			sim_thread *t = threads[i];
			if (t->state != ST_RUNNABLE) continue;
			if ((mode == 0 || mode == 1) && t == me) continue;
			// insertion sort by (last_run, id): index 0 = least recently run
			int j = n++;
			while (j > 0 && (run[j - 1]->last_run > t->last_run)) { run[j] = run[j - 1]; j--; }
			run[j] = t;
		}
		if (n == 0) {
			if (mode == 0) return; // nobody else, keep going
			uint64_t ne = compute_next_event();
			if (mode == 1) {
				// a spinning thread with nobody else runnable burns time: the k-th consecutive
				// fruitless yield costs 100ns * 2^k (capped at ~13 ms and at the next event), so
				// the spinner re-examines its condition many times before any distant deadline
				if (me->nhooks - me->spin_hooks > 8) me->spin = 0;
				me->spin_hooks = me->nhooks;
				uint64_t q = 100ull << (me->spin < 17 ? me->spin : 17);
				me->spin++;
				uint64_t t = now_ns + q;
				if (ne != UINT64_MAX && ne < t) t = ne;
				if (t > now_ns) { advance_to(t); sim_st.idle_jumps++; }
				if (now_ns >= next_evt || ne <= now_ns) { next_evt = 0; fire_due(); poll_waiters(); }
				int any = 0;
				for (int i = 0; i < nthreads; i++) if (threads[i] != me && threads[i]->state == ST_RUNNABLE) any = 1;
				if (!any) return;
				continue;
			}
			if (ne == UINT64_MAX) {
				if (sim_on_deadlock) sim_on_deadlock();
				sim_fatal("deadlock without handler");
			}
			if (ne > now_ns) { advance_to(ne); sim_st.idle_jumps++; }
			next_evt = 0;
			continue;
		}
		uint32_t want = 0;
		if (sim_k.strategy == STRAT_PCT && !fair && !tape_replay) {
			for (int i = 1; i < n; i++) if (run[i]->prio > run[want]->prio) want = (uint32_t)i;
		} else if (n > 1) {
			want = draw_uniform((uint32_t)n);
		}
		sim_thread *pick = run[decide(K_PICK, (uint32_t)n, want)];
		sim_st.switches++;
		hmix(&sim_st.sched_sig, ((uint64_t)me->id << 48) ^ (me->nhooks << 8) ^ (uint64_t)pick->id);
		hmix(&sim_st.trace_hash, ((uint64_t)me->id << 48) ^ (me->nhooks << 8) ^ (uint64_t)pick->id);
		hmix(&sim_st.trace_hash, now_ns);
		me->last_run = ++lru_clock;
		if (sim_debug) fprintf(stderr, "  sched: t%d(h%lu,%s) -> t%d mode %d step %lu now %.6f\n", me->id, (unsigned long)me->nhooks, st_names[me->state], pick->id, mode, (unsigned long)sim_st.steps, (double)now_ns / 1e9);
		if (pick == me) return;
		if (!fair) pick->slice = 0;   // a fresh quantum for the thread switched in
		if (mode == 3) { release(pick); return; }
		me->go = 0;
		release(pick);
		park(me);
		return;
	}
}

static void block(int state, void *obj, uint64_t wake_at) {
	sim_thread *me = self;
	me->state = state; me->wait_obj = obj; me->wake_at = wake_at; me->wake_reason = 0;
	note_event(wake_at);
	reschedule(2);
	me->wait_obj = NULL;
}
static void wake(sim_thread *t) {
	t->state = ST_RUNNABLE; t->wake_reason = 0; t->wake_at = UINT64_MAX;
}

/* ---------- watch ranges ---------- */
#define MAXWATCH 32
static struct { uintptr_t lo, hi; } watch[MAXWATCH]; static int nwatch;
void sim_watch(const void *p, size_t len) {
	if (nwatch < MAXWATCH) { watch[nwatch].lo = (uintptr_t)p; watch[nwatch].hi = (uintptr_t)p + len; nwatch++; }
}
static inline int watched(const volatile void *a) {
	uintptr_t x = (uintptr_t)a;
	for (int i = 0; i < nwatch; i++) if (x >= watch[i].lo && x < watch[i].hi) return 1;
	return 0;
}

/* ---------- time faults ---------- */
static const int64_t tf_warp[] = { 10000, 1000000, 100000000, 1000000000 };
static const int64_t tf_jump[] = { 1000000, 20000000, 1000000000, 3600000000000ll };
// codes: 1..4 warp, 5..8 wall jump forward, 9..12 wall jump backward
static void time_fault(uint32_t code) {
	if (code >= 1 && code <= 4) { advance_to(now_ns + (uint64_t)tf_warp[code - 1]); sim_st.warps++; next_evt = 0; }
	else if (code >= 5 && code <= 8) sim_wall_jump(tf_jump[code - 5]);
	else if (code >= 9 && code <= 12) sim_wall_jump(-tf_jump[code - 9]);
}
static uint32_t draw_timefault(void) {
	if (!draw_bool(sim_k.timefault_den)) return 0;
	unsigned m = sim_k.timefault_mask; int opts[3], no = 0;
	for (int b = 0; b < 3; b++) if (m & (1u << b)) opts[no++] = b;
	if (!no) return 0;
	return (uint32_t)(1 + opts[rnd() % (unsigned)no] * 4 + (int)(rnd() % 4));
}

/* ---------- hooks from libdispatch ---------- */
static inline void step_common(sim_thread *me) {
	sim_st.steps++; now_ns += sim_k.tick_ns;
	if (sim_st.steps > sim_k.step_cap) { if (sim_on_stepcap) sim_on_stepcap(); else sim_fatal("step cap"); }
	if (now_ns >= next_evt) fire_due();
	(void)me;
}

static void hook_point(sim_thread *me, const volatile void *addr, int den) {
	step_common(me);
	me->nhooks++; sim_st.hooks++;
	// fair phase: round-robin time slices, so that a thread busy with calls that never block (an event
	// loop whose descriptor stays ready) cannot starve the others; a pure function of the run, no tape entry
	if (fair && ++me->slice >= 512) { me->slice = 0; reschedule(0); return; }
	// outside the fair phase a thread that never blocks still loses the processor eventually (quantum): without it
	// a run-to-block strategy lets one worker push to an overcommit queue and drain it for ever, each push creating
	// another thread that never gets to run
	if (!fair && ++me->slice >= (sim_k.strategy == STRAT_FAIR ? 512 : 16384)) { me->slice = 0; if (sim_k.strategy == STRAT_PCT) me->prio = -1; reschedule(0); return; }
	// injected stall: the thread sleeps for a span of simulated time at this very point
	if (sim_k.stall_k || tape_replay || me->arm_ord) {
		uint32_t code = 0;
		if (me->arm_ord && me->arm_ord == me->nhooks) { code = (uint32_t)me->arm_code; me->arm_ord = 0; }
		if (sim_k.strategy == STRAT_STALL)
			for (int i = 0; i < sim_k.stall_k; i++)
				if (sim_k.stall_tid[i] == me->id && sim_k.stall_ord[i] == me->nhooks) code = (uint32_t)sim_k.stall_code[i];
		code = decide_hook(me, K_STALL, NSTALLDUR, code);
		if (code) { block(ST_SLEEP, NULL, now_ns + stall_dur[code]); return; }
	}
	if (sim_k.timefault_den || tape_replay) {
		uint32_t tf = decide_hook(me, K_TIMEFAULT, 13, draw_timefault());
		if (tf) time_fault(tf);
	}
	uint32_t want = 0;
	int w = 0;
	if (sim_k.strategy == STRAT_PCT && !fair && !tape_replay) {
		for (int i = 0; i < nthreads; i++)
			if (threads[i] != me && threads[i]->state == ST_RUNNABLE && threads[i]->prio > me->prio) { want = 1; break; }
	} else {
		w = (addr && nwatch && watched(addr));
		want = draw_bool(w ? sim_k.watch_den : den);
	}
	if (decide_hook(me, K_PREEMPT, 2, want)) { if (w) sim_st.watched_preempts++; reschedule(0); }
}

static uint64_t pct_cp[8];
static void pct_tick(sim_thread *me) {
	for (int i = 0; i < sim_k.pct_d && i < 8; i++)
		if (sim_st.steps == pct_cp[i]) me->prio = sim_k.pct_d - i;
}

void _dispatch_verif_point(const volatile void *addr, int post) {
	sim_thread *me = self;
	if (!me || !active) return;
	if (sim_debug > 1 && post && nwatch && watched(addr)) {
		uintptr_t a = (uintptr_t)addr; int wi = 0;
		for (int i = 0; i < nwatch; i++) if (a >= watch[i].lo && a < watch[i].hi) wi = i;
		uint64_t v = ((a & 7) == 0) ? *(volatile uint64_t *)a : *(volatile uint32_t *)a;
		fprintf(stderr, "    atomic t%d h%lu watch%d+%lu = %016lx  (ret %p)\n", me->id, (unsigned long)me->nhooks, wi, (unsigned long)(a - watch[wi].lo), (unsigned long)v, __builtin_return_address(0));
	}
	if (sim_k.strategy == STRAT_PCT) pct_tick(me);
	hook_point(me, addr, sim_k.preempt_den);
}
void sim_mem_access(const volatile void *addr) {
	sim_thread *me = self;
	if (!me || !active) return;
	uintptr_t a = (uintptr_t)addr;
	if (a >= me->stk_lo && a < me->stk_hi) return; // own stack: never shared
	sim_st.memacc++;
	if (sim_k.strategy == STRAT_PCT) pct_tick(me);
	hook_point(me, addr, sim_k.mem_den);
}
void sim_point(void) {
	sim_thread *me = self;
	if (!me || !active) return;
	hook_point(me, NULL, sim_k.preempt_den > 4 ? 4 : sim_k.preempt_den);
}
int _dispatch_verif_weak_cas_fails(const volatile void *addr) {
	(void)addr;
	if (!self || !active) return 0;
	if (!sim_k.weakcas_den && !tape_replay) return 0;
	return (int)decide(K_WEAKCAS, 2, draw_bool(sim_k.weakcas_den));
}
static int yield_low;
void _dispatch_verif_pause(void) {
	sim_thread *me = self;
	if (!me || !active) return;
	if (sim_k.strategy == STRAT_PCT) me->prio = --yield_low;
	step_common(me);
	// a thread that keeps yielding is spinning, and spinning burns time even when others are runnable (otherwise two
	// spinners waiting for a stalled third thread would hand the processor to each other for ever with a zero tick)
	if (me->nhooks - me->yield_hooks > 8) me->yields = 0;
	me->yield_hooks = me->nhooks;
	advance_to(now_ns + (50ull << (me->yields < 12 ? me->yields : 12)));
	me->yields++;
	reschedule(1);
}
void sim_yield(void) { _dispatch_verif_pause(); }
void _dispatch_verif_probe(int id) {
	if (id >= 0 && id < SIM_NPROBES) sim_st.probe[id]++;
}
int _dispatch_verif_unusual(int id) {
	if (!self || !active || id < 0 || id >= SIM_NUNUSUAL) return 0;
	if (!(sim_k.unusual_mask & (1u << id)) && !tape_replay) return 0;
	int r = (int)decide(K_UNUSUAL, 2, draw_bool(sim_k.unusual_den));
	if (r) sim_st.unusual[id]++;
	return r;
}

/* ---------- threads ---------- */
static void run_key_dtors(void) {
	for (int round = 0; round < 4; round++) {
		int any = 0;
		for (int i = 0; i < nkeys; i++) {
			void *v = pthread_getspecific(keys[i].k);
			if (v && keys[i].d) { pthread_setspecific(keys[i].k, NULL); keys[i].d(v); any = 1; }
		}
		if (!any) break;
	}
}
static void set_stack(sim_thread *t) {
	pthread_attr_t a; void *lo; size_t sz;
	if (pthread_getattr_np(pthread_self(), &a) == 0) {
		pthread_attr_getstack(&a, &lo, &sz);
		t->stk_lo = (uintptr_t)lo; t->stk_hi = (uintptr_t)lo + sz;
		pthread_attr_destroy(&a);
	}
}
static void *trampoline(void *p) {
	sim_thread *me = p;
	set_stack(me);
	self = me;
	park(me);
	void *r = me->fn(me->arg);
	run_key_dtors();
	me->state = ST_DONE;
	for (int i = 0; i < nthreads; i++)
		if (threads[i]->state == ST_JOIN && threads[i]->wait_obj == me) wake(threads[i]);
	reschedule(3);
	return r;
}
static sim_thread *new_thread(void *(*fn)(void *), void *arg, const char *name) {
	if (nthreads >= MAXT) { if (sim_on_capacity) sim_on_capacity("more threads were created in one run than the simulator has slots for"); sim_fatal("too many threads"); }
	sim_thread *t = &thread_store[nthreads];
	memset(t, 0, sizeof *t);
	t->id = nthreads; t->vtid = 1000 + nthreads; t->state = ST_RUNNABLE;
	t->wake_at = UINT64_MAX; t->fn = fn; t->arg = arg; t->name = name;
	t->prio = 100 + (int)(tape_replay ? 0 : rnd() % 1000);
	t->last_run = ++lru_clock;
	threads[nthreads++] = t;
	sim_st.nthreads = nthreads;
	return t;
}
int __wrap_pthread_create(pthread_t *pt, const pthread_attr_t *attr, void *(*fn)(void *), void *arg) {
	if (!active || !self) return __real_pthread_create(pt, attr, fn, arg);
	step_common(self);
	if ((sim_k.thrfail_den || tape_replay) && decide(K_THRFAIL, 2, draw_bool(sim_k.thrfail_den))) return EAGAIN;
	sim_thread *t = new_thread(fn, arg, "lib");
	t->is_lib = 1;
	int r = __real_pthread_create(&t->pt, attr, trampoline, t);
	if (r) sim_fatal("real pthread_create failed %d", r);
	if (pt) *pt = t->pt;
	return 0;
}
sim_thread *sim_spawn(void *(*fn)(void *), void *arg, const char *name) {
	sim_thread *t = new_thread(fn, arg, name);
	pthread_attr_t a; pthread_attr_init(&a);
	pthread_attr_setdetachstate(&a, PTHREAD_CREATE_DETACHED);
	int r = __real_pthread_create(&t->pt, &a, trampoline, t);
	if (r) sim_fatal("real pthread_create failed %d", r);
	return t;
}
int sim_join(sim_thread *t, uint64_t timeout_ns) {
	uint64_t dl = timeout_ns == UINT64_MAX ? UINT64_MAX : now_ns + timeout_ns;
	while (t->state != ST_DONE) {
		if (dl <= now_ns) return 1;
		block(ST_JOIN, t, dl);
	}
	return 0;
}
int sim_thread_done(sim_thread *t) { return t->state == ST_DONE; }

/* pthread_exit from a simulated thread (dispatch_main() on the main thread): the thread-specific destructors run
 * here, under the baton, in order of key creation like glibc does; the thread then counts as finished */
void __real_pthread_exit(void *) __attribute__((noreturn));
int __real_sigsuspend(const sigset_t *);
void __wrap_pthread_exit(void *r) {
	sim_thread *me = self;
	if (!active || !me) __real_pthread_exit(r);
	step_common(me);
	run_key_dtors();
	me->state = ST_DONE;
	for (int i = 0; i < nthreads; i++)
		if (threads[i]->state == ST_JOIN && threads[i]->wait_obj == me) wake(threads[i]);
	reschedule(3);
	if (me->id == 0) for (;;) pause();   // the process's initial thread stays parked: the run ends with _exit
	__real_pthread_exit(r);
}
/* sigsuspend: libdispatch parks the main thread in it for ever after dispatch_main() (simulated signals are
 * delivered through the signalfd stand-in only, so nothing ever interrupts it) */
int __wrap_sigsuspend(const sigset_t *m) {
	if (!active || !self) return __real_sigsuspend(m);
	step_common(self);
	for (;;) block(ST_FOREVER, NULL, UINT64_MAX);
}

int sim_self_id(void) { return self ? self->id : -1; }
int sim_nthreads(void) { return nthreads; }

int __wrap_pthread_key_create(pthread_key_t *k, void (*d)(void *)) {
	int r = __real_pthread_key_create(k, d);
	if (r == 0 && nkeys < MAXKEYS) { keys[nkeys].k = *k; keys[nkeys].d = d; nkeys++; }
	return r;
}

/* ---------- futex / gettid ---------- */
static sim_thread *pick_waiter(sim_thread **cand, int n) {
	if (n == 1) return cand[0];
	uint32_t want = sim_k.wake_random ? draw_uniform((uint32_t)n) : 0;
	return cand[decide(K_WAKE, (uint32_t)n, want)];
}
static long sim_futex(uint32_t *uaddr, int op, uint32_t val, const struct timespec *to) {
	int cmd = op & FUTEX_CMD_MASK;
	sim_thread *me = self;
	step_common(me);
	switch (cmd) {
	case FUTEX_WAIT: {
		if (__atomic_load_n(uaddr, __ATOMIC_SEQ_CST) != val) { errno = EAGAIN; return -1; }
		if (sim_k.futexspur_den || tape_replay) {
			uint32_t f = decide(K_FUTEXSPUR, 3, draw_bool(sim_k.futexspur_den) ? 1 + (uint32_t)(rnd() & 1) : 0);
			if (f == 1) return 0;                      // spurious wake-up
			if (f == 2) { errno = EINTR; return -1; }  // signal
		}
		uint64_t w = to ? now_ns + (uint64_t)to->tv_sec * 1000000000ull + (uint64_t)to->tv_nsec : UINT64_MAX;
		me->pi_waiter = 0;
		block(ST_FUTEX, uaddr, w);
		if (me->wake_reason == 1) { errno = ETIMEDOUT; return -1; }
		return 0;
	}
	case FUTEX_WAKE: {
		int n = 0;
		while ((uint32_t)n < val) {
			sim_thread *cand[MAXT]; int c = 0;
			for (int i = 0; i < nthreads; i++) {
				sim_thread *t = threads[i];
				if (t->state == ST_FUTEX && t->wait_obj == uaddr && !t->pi_waiter) cand[c++] = t;
			}
			if (!c) break;
			if (val >= (uint32_t)c) { for (int i = 0; i < c; i++) wake(cand[i]); n += c; break; }
			wake(pick_waiter(cand, c)); n++;
		}
		return n;
	}
	case FUTEX_LOCK_PI: {
		for (;;) {
			uint32_t v = __atomic_load_n(uaddr, __ATOMIC_SEQ_CST);
			if ((v & FUTEX_TID_MASK) == 0) {
				int waiters = 0;
				for (int i = 0; i < nthreads; i++)
					if (threads[i]->state == ST_FUTEX && threads[i]->wait_obj == uaddr && threads[i]->pi_waiter) waiters = 1;
				uint32_t nv = (uint32_t)me->vtid | (waiters ? FUTEX_WAITERS : 0);
				if (__atomic_compare_exchange_n(uaddr, &v, nv, 0, __ATOMIC_SEQ_CST, __ATOMIC_SEQ_CST)) return 0;
				continue;
			}
			if ((v & FUTEX_TID_MASK) == (uint32_t)me->vtid) return 0; // handed to us by unlock_pi
			if (!__atomic_compare_exchange_n(uaddr, &v, v | FUTEX_WAITERS, 0, __ATOMIC_SEQ_CST, __ATOMIC_SEQ_CST)) continue;
			me->pi_waiter = 1;
			block(ST_FUTEX, uaddr, UINT64_MAX);
			me->pi_waiter = 0;
		}
	}
	case FUTEX_UNLOCK_PI: {
		sim_thread *cand[MAXT]; int n = 0;
		for (int i = 0; i < nthreads; i++)
			if (threads[i]->state == ST_FUTEX && threads[i]->wait_obj == uaddr && threads[i]->pi_waiter) cand[n++] = threads[i];
		if (!n) { __atomic_store_n(uaddr, 0, __ATOMIC_SEQ_CST); return 0; }
		sim_thread *w = pick_waiter(cand, n);
		__atomic_store_n(uaddr, (uint32_t)w->vtid | (n > 1 ? FUTEX_WAITERS : 0), __ATOMIC_SEQ_CST);
		wake(w);
		return 0;
	}
	default:
		sim_fatal("unsupported futex op %d", op);
	}
	return -1;
}

long __wrap_syscall(long n, ...) {
	va_list ap; va_start(ap, n);
	long a1 = va_arg(ap, long), a2 = va_arg(ap, long), a3 = va_arg(ap, long),
		a4 = va_arg(ap, long), a5 = va_arg(ap, long), a6 = va_arg(ap, long);
	va_end(ap);
	if (n == SYS_gettid) return self ? self->vtid : 1000;
	if (n == SYS_futex && active && self)
		return sim_futex((uint32_t *)a1, (int)a2, (uint32_t)a3, (const struct timespec *)a4);
	return __real_syscall(n, a1, a2, a3, a4, a5, a6);
}

/* ---------- semaphores (state kept in the sem_t storage) ---------- */
typedef struct { uint32_t magic; int32_t count; } ssem;
#define SSEM_MAGIC 0x53454d31
int __wrap_sem_init(sem_t *s, int pshared, unsigned v) {
	(void)pshared; ssem *x = (ssem *)s; x->magic = SSEM_MAGIC; x->count = (int32_t)v; return 0;
}
int __wrap_sem_destroy(sem_t *s) { ((ssem *)s)->magic = 0; return 0; }
int __wrap_sem_post(sem_t *s) {
	ssem *x = (ssem *)s;
	if (active && self) step_common(self);
	x->count++;
	sim_thread *cand[MAXT]; int n = 0;
	for (int i = 0; i < nthreads; i++)
		if (threads[i]->state == ST_SEM && threads[i]->wait_obj == s) cand[n++] = threads[i];
	if (n) wake(pick_waiter(cand, n));
	return 0;
}
static int sem_wait_common(sem_t *s, uint64_t deadline, int wallclock) {
	ssem *x = (ssem *)s;
	if (!active || !self) sim_fatal("sem_wait outside the simulation");
	step_common(self);
	for (;;) {
		if (x->count > 0) { x->count--; return 0; }
		uint64_t dl = deadline;
		if (wallclock && deadline != UINT64_MAX) dl = deadline > wall_off ? deadline - wall_off : 0;
		if (dl <= now_ns) { errno = ETIMEDOUT; return -1; }
		if ((sim_k.semeintr_den || tape_replay) && decide(K_SEMEINTR, 2, draw_bool(sim_k.semeintr_den))) { errno = EINTR; return -1; }
		block(ST_SEM, s, dl);
	}
}
int __wrap_sem_wait(sem_t *s) { return sem_wait_common(s, UINT64_MAX, 0); }
int __wrap_sem_timedwait(sem_t *s, const struct timespec *ts) {
	uint64_t wall = (uint64_t)ts->tv_sec * 1000000000ull + (uint64_t)ts->tv_nsec;
	return sem_wait_common(s, wall, 1);
}

/* ---------- time ---------- */
int __wrap_clock_gettime(clockid_t c, struct timespec *ts) {
	if (!active || !self) return __real_clock_gettime(c, ts);
	if (sim_k.clkread_ns) { now_ns += (uint64_t)sim_k.clkread_ns; hw_update(); }   // time does not stand still between two reads of a clock
	uint64_t v = clk_now(c);
	ts->tv_sec = (time_t)(v / 1000000000ull); ts->tv_nsec = (long)(v % 1000000000ull);
	return 0;
}
int __wrap_gettimeofday(struct timeval *tv, void *tz) {
	if (!active || !self) return __real_gettimeofday(tv, tz);
	uint64_t v = clk_now(CLOCK_REALTIME);
	tv->tv_sec = (time_t)(v / 1000000000ull); tv->tv_usec = (long)(v % 1000000000ull) / 1000;
	return 0;
}
void sim_sleep_ns(uint64_t ns) { block(ST_SLEEP, NULL, now_ns + ns); }
int __wrap_usleep(useconds_t us) {
	if (!active || !self) return __real_usleep(us);
	step_common(self);
	sim_sleep_ns((uint64_t)us * 1000); return 0;
}
unsigned __wrap_sleep(unsigned s) {
	if (!active || !self) return __real_sleep(s);
	step_common(self);
	sim_sleep_ns((uint64_t)s * 1000000000ull); return 0;
}
int __wrap_sched_yield(void) {
	if (!active || !self) return __real_sched_yield();
	_dispatch_verif_pause();
	return 0;
}

/* ---------- epoll / eventfd / timerfd ---------- */
#define MAXREG 64
static struct { int fd; uint32_t events; } epreg[MAXREG];
uint32_t sim_epoll_registered(int fd) {
	for (int i = 0; i < MAXREG; i++) if (epreg[i].events && epreg[i].fd == fd) return epreg[i].events;
	return 0;
}
int sim_epoll_ctl_ebadf;   // epoll_ctl calls that failed with EBADF (descriptor already closed)
int __wrap_epoll_ctl(int epfd, int op, int fd, struct epoll_event *ev) {
	io_dirty = 1;
	int r = __real_epoll_ctl(epfd, op, fd, ev);
	if (r != 0 && errno == EBADF) sim_epoll_ctl_ebadf++;
	if (r == 0) {
		int slot = -1, freeslot = -1;
		for (int i = 0; i < MAXREG; i++) {
			if (epreg[i].events && epreg[i].fd == fd) slot = i;
			if (!epreg[i].events && freeslot < 0) freeslot = i;
		}
		if (op == EPOLL_CTL_DEL) { if (slot >= 0) epreg[slot].events = 0; }
		else {
			if (slot < 0) slot = freeslot;
			if (slot >= 0) { epreg[slot].fd = fd; epreg[slot].events = ev->events | 0x80000000u; }
		}
	}
	return r;
}
int __wrap_epoll_wait(int epfd, struct epoll_event *ev, int n, int timeout) {
	if (!active || !self) return __real_epoll_wait(epfd, ev, n, timeout);
	step_common(self);
	for (;;) {
		int r = __real_epoll_wait(epfd, ev, n, 0);
		if (r != 0 || timeout == 0) return r;
		if ((sim_k.epeintr_den || tape_replay) && decide(K_EPEINTR, 2, draw_bool(sim_k.epeintr_den))) { errno = EINTR; return -1; }
		self->wfd = epfd;
		io_dirty = 1;
		block(ST_EPOLL, NULL, timeout > 0 ? now_ns + (uint64_t)timeout * 1000000ull : UINT64_MAX);
		if (self->wake_reason == 1) return 0;
	}
}
int __wrap_eventfd_write(int fd, eventfd_t v) { io_dirty = 1; if (active && self) step_common(self); return __real_eventfd_write(fd, v); }
int __wrap_eventfd_read(int fd, eventfd_t *v) { io_dirty = 1; if (active && self) step_common(self); return __real_eventfd_read(fd, v); }

/* I/O fault layer: only for fds registered with sim_io_watch(), only for calls made
 * through the wrappers (i.e. by libdispatch) */
static struct { int on, stream, peer_closed; unsigned char *log; size_t len, cap; } iow[MAXFD];
sim_io_call *sim_io_calls; int sim_io_ncalls; static int sim_io_cap;
void sim_io_peer_closed(int fd) { if (fd >= 0 && fd < MAXFD) iow[fd].peer_closed = 1; }
void sim_io_watch(int fd, int is_stream) {
	if (fd < 0 || fd >= MAXFD) return;
	iow[fd].on = 1; iow[fd].stream = is_stream; iow[fd].peer_closed = 0; iow[fd].len = 0;
}
size_t sim_io_log(int fd, unsigned char **p) { *p = iow[fd].log; return iow[fd].len; }
static void iolog(int fd, const void *b, size_t n) {
	if (iow[fd].len + n > iow[fd].cap) {
		iow[fd].cap = (iow[fd].len + n) * 2 + 64;
		iow[fd].log = realloc(iow[fd].log, iow[fd].cap);
	}
	memcpy(iow[fd].log + iow[fd].len, b, n); iow[fd].len += n;
}
static void iocall(int fd, int is_write, ssize_t ret, int err, off_t off, int has_off) {
	if (sim_io_ncalls == sim_io_cap) {
		sim_io_cap = sim_io_cap ? sim_io_cap * 2 : 256;
		sim_io_calls = realloc(sim_io_calls, (size_t)sim_io_cap * sizeof(sim_io_call));
	}
	sim_io_calls[sim_io_ncalls++] = (sim_io_call){ fd, is_write, sim_seq_cb ? sim_seq_cb() : 0, ret, err, off, has_off };
}
static inline int io_watched(int fd) { return active && self && fd >= 0 && fd < MAXFD && iow[fd].on; }
// returns 0 = perform the call (possibly with shortened *n), -1 = fail with errno set
static int io_fault(int fd, size_t *n, int is_write) {
	uint32_t want = 0;
	if (draw_bool(sim_k.iofault_den)) {
		int opts[IOF_N], no = 0;
		for (int k = 1; k < IOF_N; k++) if (sim_k.iofault_mask & (1u << k)) opts[no++] = k;
		if (no) want = (uint32_t)opts[rnd() % (unsigned)no];
	}
	uint32_t k = decide_t(GLOBAL_TID, K_IOFAULT, IOF_N, want);
	if (!k) return 0;
	// legality: only what a kernel could return in this state
	if (k == IOF_EAGAIN && (!iow[fd].stream || iow[fd].peer_closed)) k = IOF_EINTR;
	if (k == IOF_ENOSPC && (!is_write || iow[fd].stream)) k = IOF_EINTR;
	if (k == IOF_EPIPE && !(is_write && iow[fd].stream && iow[fd].peer_closed)) k = IOF_EINTR;
	if (k == IOF_EOF) k = IOF_EINTR;
	if (k == IOF_SHORT && *n <= 1) return 0;
	sim_st.iofault[k]++;
	switch (k) {
	case IOF_SHORT: {
		uint32_t m = (uint32_t)(*n - 1);
		uint32_t a = decide_t(GLOBAL_TID, K_IOARG, m, draw_uniform(m));
		*n = 1 + a; return 0; }
	case IOF_EINTR: errno = EINTR; return -1;
	case IOF_EAGAIN: errno = EAGAIN; return -1;
	case IOF_EIO: errno = EIO; return -1;
	case IOF_ENOSPC: errno = ENOSPC; return -1;
	case IOF_EPIPE: errno = EPIPE; return -1;
	}
	return 0;
}
/* signalfd stand-in: an eventfd per signalfd() call; standard signals coalesce, and so does the eventfd counter */
#define MAXSFD 8
static struct { int used, fd, signo; } sfd[MAXSFD];
int __wrap_signalfd(int fd, const sigset_t *mask, int flags) {
	(void)flags;
	if (fd != -1) { errno = EINVAL; return -1; }
	int signo = 0;
	for (int s = 1; s < 65; s++) if (sigismember(mask, s) == 1) { signo = s; break; }
	int e = eventfd(0, EFD_NONBLOCK | EFD_CLOEXEC);
	if (e < 0) return e;
	for (int i = 0; i < MAXSFD; i++) if (!sfd[i].used) { sfd[i].used = 1; sfd[i].fd = e; sfd[i].signo = signo; return e; }
	sim_fatal("too many signalfds");
	return -1;
}
int sim_signalfd_of(int signo) {
	for (int i = 0; i < MAXSFD; i++) if (sfd[i].used && sfd[i].signo == signo) return sfd[i].fd;
	return -1;
}
void sim_signal_raise(int signo) {
	if (active && self) step_common(self);
	uint64_t one = 1;
	for (int i = 0; i < MAXSFD; i++) if (sfd[i].used && sfd[i].signo == signo) {
		if (__real_write(sfd[i].fd, &one, 8) != 8) sim_fatal("signalfd stand-in write");
		io_dirty = 1;
	}
}
ssize_t __wrap_read(int fd, void *b, size_t n) {
	io_dirty = 1;
	for (int i = 0; i < MAXSFD; i++) if (sfd[i].used && sfd[i].fd == fd && active && self) {
		step_common(self);
		if (n < sizeof(struct signalfd_siginfo)) { errno = EINVAL; return -1; }
		// misfire: the signal was taken by a thread that had it unblocked; the library's handler blocks it there
		// and raises it again, so it stays pending here
		if ((sim_k.sigmiss_den || tape_replay) && decide(K_SIGMISS, 2, draw_bool(sim_k.sigmiss_den))) { errno = EAGAIN; return -1; }
		uint64_t v;
		if (__real_read(fd, &v, 8) != 8) { errno = EAGAIN; return -1; }
		struct signalfd_siginfo *si = b; memset(si, 0, sizeof *si); si->ssi_signo = (uint32_t)sfd[i].signo;
		return (ssize_t)sizeof *si;
	}
	if (!io_watched(fd)) return __real_read(fd, b, n);
	step_common(self);
	if (io_fault(fd, &n, 0)) { iocall(fd, 0, -1, errno, 0, 0); return -1; }
	ssize_t r = __real_read(fd, b, n);
	int e = errno;
	if (r > 0) iolog(fd, b, (size_t)r);
	iocall(fd, 0, r, r < 0 ? e : 0, 0, 0);
	errno = e;
	return r;
}
ssize_t __wrap_write(int fd, const void *b, size_t n) {
	io_dirty = 1;
	if (!io_watched(fd)) return __real_write(fd, b, n);
	step_common(self);
	if (io_fault(fd, &n, 1)) { iocall(fd, 1, -1, errno, 0, 0); return -1; }
	ssize_t r = __real_write(fd, b, n);
	int e = errno;
	if (r > 0) iolog(fd, b, (size_t)r);
	iocall(fd, 1, r, r < 0 ? e : 0, 0, 0);
	errno = e;
	return r;
}
ssize_t __wrap_pread(int fd, void *b, size_t n, off_t off) {
	if (!io_watched(fd)) return __real_pread(fd, b, n, off);
	step_common(self);
	if (io_fault(fd, &n, 0)) { iocall(fd, 0, -1, errno, off, 1); return -1; }
	ssize_t r = __real_pread(fd, b, n, off);
	int e = errno;
	iocall(fd, 0, r, r < 0 ? e : 0, off, 1);
	errno = e;
	return r;
}
ssize_t __wrap_pwrite(int fd, const void *b, size_t n, off_t off) {
	if (!io_watched(fd)) return __real_pwrite(fd, b, n, off);
	step_common(self);
	if (io_fault(fd, &n, 1)) { iocall(fd, 1, -1, errno, off, 1); return -1; }
	ssize_t r = __real_pwrite(fd, b, n, off);
	int e = errno;
	iocall(fd, 1, r, r < 0 ? e : 0, off, 1);
	errno = e;
	return r;
}
int __wrap_close(int fd) {
	io_dirty = 1;
	for (int i = 0; i < MAXTFD; i++) if (tfd[i].used && tfd[i].fd == fd) tfd[i].used = 0;
	for (int i = 0; i < MAXSFD; i++) if (sfd[i].used && sfd[i].fd == fd) sfd[i].used = 0;
	if (fd >= 0 && fd < MAXFD) iow[fd].on = 0;
	for (int i = 0; i < MAXREG; i++) if (epreg[i].events && epreg[i].fd == fd) epreg[i].events = 0;
	return __real_close(fd);
}
void sim_mark_io(void) { io_dirty = 1; }

/* harness-side I/O */
ssize_t sim_io_read(int fd, void *b, size_t n) {
	for (;;) {
		io_dirty = 1;
		ssize_t r = __real_read(fd, b, n);
		if (r >= 0 || (errno != EAGAIN && errno != EINTR)) return r;
		if (sim_io_wait_readable(fd, 120000000000ull)) { errno = ETIMEDOUT; return -1; }
	}
}
ssize_t sim_io_write(int fd, const void *b, size_t n) {
	io_dirty = 1;
	return __real_write(fd, b, n);
}
int sim_io_close(int fd) { io_dirty = 1; return __real_close(fd); }
int sim_io_wait_readable(int fd, uint64_t timeout_ns) {
	uint64_t dl = timeout_ns == UINT64_MAX ? UINT64_MAX : now_ns + timeout_ns;
	for (;;) {
		struct pollfd p = { .fd = fd, .events = POLLIN };
		if (poll(&p, 1, 0) > 0) return 0;
		if (dl <= now_ns) return 1;
		self->wfd = fd; io_dirty = 1;
		block(ST_POLL, NULL, dl);
	}
}

int __wrap_timerfd_create(int clockid, int flags) {
	(void)flags;
	int fd = eventfd(0, EFD_NONBLOCK | EFD_CLOEXEC);
	if (fd < 0) return fd;
	for (int i = 0; i < MAXTFD; i++) if (!tfd[i].used) {
		tfd[i].used = 1; tfd[i].fd = fd; tfd[i].armed = 0; tfd[i].clock = clockid; return fd;
	}
	sim_fatal("too many timerfds");
	return -1;
}
int __wrap_timerfd_settime(int fd, int flags, const struct itimerspec *its, struct itimerspec *old) {
	(void)old;
	int i;
	for (i = 0; i < MAXTFD; i++) if (tfd[i].used && tfd[i].fd == fd) break;
	if (i == MAXTFD) { errno = EBADF; return -1; }
	if (active && self) step_common(self);
	uint64_t v; ssize_t rr = __real_read(fd, &v, 8); (void)rr; // settime resets pending expirations
	io_dirty = 1;
	uint64_t t = (uint64_t)its->it_value.tv_sec * 1000000000ull + (uint64_t)its->it_value.tv_nsec;
	if (t == 0) { tfd[i].armed = 0; return 0; }
	if (!(flags & TFD_TIMER_ABSTIME)) t += clk_now(tfd[i].clock);
	tfd[i].target = t; tfd[i].armed = 1;
	next_evt = 0;
	return 0;
}

/* ---------- /proc/<tid>/stat (thread-pool monitor) ---------- */
int __wrap_open(const char *path, int flags, ...) {
	va_list ap; va_start(ap, flags); int mode = va_arg(ap, int); va_end(ap);
	int tid;
	if (active && self && sscanf(path, "/proc/%d/stat", &tid) == 1) {
		if (tid < 1000 || tid >= 1000 + nthreads) { errno = ENOENT; return -1; }
		sim_thread *t = threads[tid - 1000];
		int p[2]; if (pipe(p)) return -1;
		char buf[64]; int n = snprintf(buf, sizeof buf, "%d (sim) %c 1 1 1\n", tid,
			(t->state == ST_RUNNABLE) ? 'R' : 'S');
		ssize_t w = __real_write(p[1], buf, (size_t)n); (void)w;
		__real_close(p[1]);
		return p[0];
	}
	return __real_open(path, flags, mode);
}

/* ---------- allocation faults ---------- */
void *__wrap_calloc(size_t n, size_t sz) {
	if (active && self && (sim_k.alloc_den || tape_replay)
			&& decide(K_ALLOC, 2, draw_bool(sim_k.alloc_den))) { errno = ENOMEM; return NULL; }
	return __real_calloc(n, sz);
}
int __wrap_posix_memalign(void **p, size_t al, size_t sz) {
	if (active && self && (sim_k.alloc_den || tape_replay)
			&& decide(K_ALLOC, 2, draw_bool(sim_k.alloc_den))) return ENOMEM;
	return __real_posix_memalign(p, al, sz);
}

/* ---------- harness API ---------- */
void sim_event_signal(sim_event *e) {
	e->set = 1;
	for (int i = 0; i < nthreads; i++)
		if (threads[i]->state == ST_EVENT && threads[i]->wait_obj == e) wake(threads[i]);
}
int sim_event_wait(sim_event *e, uint64_t timeout_ns) {
	uint64_t dl = timeout_ns == UINT64_MAX ? UINT64_MAX : now_ns + timeout_ns;
	while (!e->set) {
		if (dl <= now_ns) return 1;
		block(ST_EVENT, e, dl);
	}
	return 0;
}
// fault placement by the workload: stall the calling thread at its rel-th scheduling point from now (inside the
// operation it is about to start); recorded on the tape like every other stall
void sim_arm_stall(uint32_t rel, int code) {
	if (!self || !active || fair || tape_replay) return;
	if (code < 1) code = 1;
	if (code >= NSTALLDUR) code = NSTALLDUR - 1;
	self->arm_ord = self->nhooks + rel; self->arm_code = code;
}
void sim_set_fair(void) { fair = 1; }
int sim_is_fair(void) { return fair; }

void sim_seed(uint64_t seed) {
	uint64_t x = seed;
	rng_s[0] = splitmix(&x); rng_s[1] = splitmix(&x);
	if (!tape_out) tape_out = malloc(sizeof(struct tent) * MAXTAPE);
}
void sim_begin(void) {
	sim_debug = getenv("SIM_DBG") ? atoi(getenv("SIM_DBG")) : 0;
	now_ns = start_ns = sim_k.start_up_ns; boot_off = sim_k.boot_off_ns; wall_off = sim_k.wall_off_ns;
	hw_up = hw_boot = hw_wall = 0; hw_update();
	next_evt = 0;
	sim_st.sched_sig = sim_st.trace_hash = 1469598103934665603ull;
	if (sim_k.strategy == STRAT_PCT)
		for (int i = 0; i < sim_k.pct_d && i < 8; i++) pct_cp[i] = 1 + rnd() % (sim_k.pct_span ? sim_k.pct_span : 1);
	sim_thread *t = new_thread(NULL, NULL, "main");
	t->go = 1; set_stack(t); self = t; active = 1;
}
void sim_finish_stats(void) {
	sim_st.sim_ns = now_ns - start_ns;
}
